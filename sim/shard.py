"""Pristine parent + fork plumbing + the warm/cold oracle.

The process that imports this module is the *pristine parent* of a shard: it imports
dep_logic (so that a forked child is "a fresh interpreter right after import") but
never calls into it. Every execution of library code happens in a forked child that
reports through a pipe and exits.
"""

from __future__ import annotations

import hashlib
import json
import os
import select
import signal
import sys
import time
import traceback

from sim import exec as sx
from sim import gen
from sim import shim as sshim

# imported for its side effect: module state after import == fresh interpreter after import
import dep_logic.markers  # noqa: F401,E402
import dep_logic.specifiers  # noqa: F401,E402
import dep_logic.utils  # noqa: F401,E402

DEFAULT_FUEL = 60_000
CHILD_DEADLINE_S = 180.0


class HarnessError(Exception):
    pass


def assert_pristine():
    sizes = sshim.cache_sizes()
    dirty = {k: v for k, v in sizes.items() if v}
    if dirty:
        raise HarnessError(f"pristine parent has populated caches: {dirty}")
    return sizes


def fork_call(fn, deadline_s=CHILD_DEADLINE_S):
    """Run fn() in a forked child; return its JSON-able result.

    Returns {"__harness__": "timeout"|"crash", ...} when the child did not deliver.
    """
    r, w = os.pipe()
    sys.stdout.flush()
    sys.stderr.flush()
    pid = os.fork()
    if pid == 0:
        code = 0
        try:
            os.close(r)
            os.setsid()  # own process group: a timeout kills scouts (grandchildren) too
            for sig in (signal.SIGALRM, signal.SIGINT, signal.SIGTERM):
                signal.signal(sig, signal.SIG_DFL)
            try:
                out = fn()
            except BaseException:  # noqa: BLE001
                out = {"__harness__": "crash", "trace": traceback.format_exc()}
            data = json.dumps(out).encode()
            view = memoryview(data)
            while view:
                n = os.write(w, view)
                view = view[n:]
        except BaseException:  # noqa: BLE001
            code = 3
        finally:
            os._exit(code)
    os.close(w)
    chunks = []
    end = time.monotonic() + deadline_s
    timed_out = False
    try:
        while True:
            left = end - time.monotonic()
            if left <= 0:
                timed_out = True
                break
            ready, _, _ = select.select([r], [], [], min(left, 5.0))
            if not ready:
                continue
            chunk = os.read(r, 1 << 16)
            if not chunk:
                break
            chunks.append(chunk)
    finally:
        os.close(r)
        if timed_out:
            try:
                os.killpg(pid, signal.SIGKILL)
            except (ProcessLookupError, PermissionError):
                try:
                    os.kill(pid, signal.SIGKILL)
                except ProcessLookupError:
                    pass
        _, status = os.waitpid(pid, 0)
    if timed_out:
        return {"__harness__": "timeout"}
    try:
        return json.loads(b"".join(chunks))
    except ValueError:
        return {"__harness__": "crash", "trace": f"child exit status {status}, {sum(map(len, chunks))} bytes"}


# ---------------------------------------------------------------------------
# warm and cold executions
# ---------------------------------------------------------------------------


def warm_run(steps, envs, *, fuel, shims, faults=True, late_observe=True):
    def child():
        shim = None
        if shims:
            shim = sshim.Shim()
            shim.install()
            by_id = {s["id"]: s for s in steps}
            shim.cones = {s["id"]: frozenset(sx.cone_of(by_id, s["id"]))
                          for s in steps if s["op"] in ("parse", "and", "or", "reparse", "echo")}
        recs = sx.run_steps(steps, envs, faults=faults, fuel=fuel, shim=shim, late_observe=late_observe)
        out = {"records": recs, "clock": sx.CLOCK.now, "entered": sx.entered_summary()}
        if shim is not None:
            out["shim"] = shim.summary()
        else:
            out["sizes"] = sshim.cache_sizes()
        return out

    return fork_call(child)


def cold_run(cold_steps, envs, *, fuel):
    """Run a cone program in a fresh fork; return the record of its LAST step plus cone health."""
    target = cold_steps[-1]["id"]

    def child():
        recs = sx.run_steps(cold_steps, envs, faults=False, fuel=fuel, observe_ids={target})
        last = recs[-1]
        bad = [r["id"] for r in recs[:-1] if r["status"] != "ok"]
        return {"record": last, "cone_bad": bad, "clock": sx.CLOCK.now}

    return fork_call(child)


def canon_cone(cold_steps):
    """Canonical (renumbered) form of a cone program: the memo key for cold results."""
    ren = {}
    out = []
    for st in cold_steps:
        ren[st["id"]] = len(ren)
        item = [st["op"]]
        if "text" in st:
            item.append(st["text"])
        for k in ("a", "b"):
            if k in st:
                item.append(ren[st[k]])
        out.append(item)
    return json.dumps(out)


def classify(warm_rec, cold):
    """None | ("inconclusive", why) | ("text"|"meaning"|"status", detail)."""
    if "__harness__" in cold:
        return ("harness", cold["__harness__"])
    crec = cold["record"]
    if cold["cone_bad"]:
        return ("inconclusive", "cone step failed or ran out of fuel in the cold run")
    ws, cs = warm_rec["status"], crec["status"]
    if ws == "fuel" or cs == "fuel":
        return ("inconclusive", "fuel")
    if ws == "raised" and warm_rec.get("exc") == "RecursionError":
        return ("inconclusive", "natural RecursionError (warm)")
    if cs == "raised" and crec.get("exc") == "RecursionError":
        return ("inconclusive", "natural RecursionError (cold)")
    if ws != cs:
        return ("status", {"warm": ws + ":" + str(warm_rec.get("exc", "")), "cold": cs + ":" + str(crec.get("exc", ""))})
    if ws == "raised":
        if warm_rec.get("exc") != crec.get("exc"):
            return ("status", {"warm": "raised:" + str(warm_rec.get("exc")), "cold": "raised:" + str(crec.get("exc"))})
        return None
    wo, co = warm_rec["obs"], crec["obs"]
    if wo == co:
        return None
    if wo["tv"] != co["tv"] or wo["flags"] != co["flags"]:
        return ("meaning", {"warm": wo, "cold": co})
    return ("text", {"warm": wo, "cold": co})


def plan_chains(by_id, probe_ids):
    """Group cold probes into chains of nested cones so that one fresh fork can serve several probes.

    A chain is a list of segments [(steps to execute, probe id observed after them)] such that when a
    probe is observed, the set of steps executed so far in that fork is EXACTLY the probe's cone
    (order inside a cone may differ from program order; C10 says order must not matter, and any
    history consisting of the cone alone is a legitimate "fresh interpreter" reference).
    Returns [{"segments": [([step ids], probe id), …]}].
    """
    cones = {sid: sx.cone_of(by_id, sid) for sid in probe_ids}
    chains = []  # {"covered": frozenset, "segments": [...]}
    pure_parse_done = set()
    singles = []
    for sid in probe_ids:
        cone = cones[sid]
        cset = set(cone)
        if len(cone) == 1:
            singles.append(sid)
            continue
        best = None
        for ch in chains:
            if ch["covered"] < cset and (best is None or len(ch["covered"]) > len(best["covered"])):
                best = ch
        if best is not None:
            rest = [k for k in cone if k not in best["covered"]]
            best["segments"].append((rest, sid))
            best["covered"] = frozenset(cset)
            continue
        # new chain: start with a cone-free step of this cone that is itself a probe and has not been
        # observed in a pristine state yet, so that its own cold fork is saved
        first = next((k for k in cone if k in cones and len(cones[k]) == 1 and k not in pure_parse_done), None)
        segments = []
        covered = set()
        if first is not None:
            segments.append(([first], first))
            pure_parse_done.add(first)
            covered.add(first)
        segments.append(([k for k in cone if k not in covered], sid))
        chains.append({"covered": frozenset(cset), "segments": segments})
    for sid in singles:
        if sid not in pure_parse_done:
            chains.append({"covered": frozenset([sid]), "segments": [([sid], sid)]})
    return [{"segments": ch["segments"]} for ch in chains]


def cold_chain_run(by_id, chain, envs, *, fuel):
    """One fresh fork serving every probe of a chain. Returns {probe id: {"record", "cone_bad", "clock"}}."""
    order = []
    observe = set()
    for seg, probe in chain["segments"]:
        order.extend(seg)
        observe.add(probe)
    prog = [{kk: vv for kk, vv in by_id[k].items() if kk not in ("fault", "ast", "c")} for k in order]

    def child():
        recs = sx.run_steps(prog, envs, faults=False, fuel=fuel, observe_ids=observe, clock_marks=True)
        return {"records": recs}

    res = fork_call(child)
    if "__harness__" in res:
        return {probe: res for _, probe in chain["segments"]}, 0
    recs = {r["id"]: r for r in res["records"]}
    out = {}
    bad = []
    done = []
    for seg, probe in chain["segments"]:
        for k in seg:
            done.append(k)
            if recs[k]["status"] != "ok":
                bad.append(k)  # including earlier probes of this chain: their dependents get skipped
        cone = set(sx.cone_of(by_id, probe))
        out[probe] = {"record": recs[probe], "cone_bad": [k for k in bad if k in cone and k != probe],
                      "clock": recs[probe]["clock"]}
    return out, max((r["clock"] for r in res["records"]), default=0)


def evaluate_program(steps, envs, *, fuel=DEFAULT_FUEL, shims=False, faults=True, only=None,
                     cold_cache=None, skip_trivial=False, chains=None, max_probes=0):
    """Warm run, then every completed producing step (or only ``only``) is compared with its cold run.

    ``chains``: None = one fresh fork per probe (cone in program order) when ``only`` is given, chained
    forks otherwise; True/False forces. Returns dict(warm, probes=[{id, verdict, …}], divergences, harness, steps).
    """
    warm = warm_run(steps, envs, fuel=fuel, shims=shims, faults=faults)
    if "__harness__" in warm:
        return {"warm": warm, "probes": [], "divergences": [], "harness": [("warm", warm["__harness__"], warm.get("trace"))],
                "steps": steps}
    steps = sx.concretise(steps, warm["records"])
    by_id = {s["id"]: s for s in steps}
    if chains is None:
        chains = only is None
    probes = []
    divergences = []
    harness = []
    cold_cache = cold_cache if cold_cache is not None else {}
    # ---- phase 1: which steps are probed -----------------------------------------------------
    todo = []  # (warm record)
    disturbed = False  # an abort, failure or fuel exhaustion happened so far: warm prefix != fault-free prefix
    prefix = set()
    for rec in warm["records"]:
        sid = rec["id"]
        prefix.add(sid)
        was_disturbed = disturbed
        if rec["status"] in ("aborted", "raised", "fuel") or rec.get("attempts", 1) > 1 or (rec.get("fault") or {}).get("fired"):
            disturbed = True
        if only is not None and sid not in only:
            continue
        if rec["status"] not in ("ok", "raised", "fuel"):
            continue
        if skip_trivial and not was_disturbed and rec["status"] == "ok" and rec.get("attempts", 1) == 1 \
                and not (rec.get("fault") or {}).get("fired"):
            # every step executed so far is in this probe's cone and nothing was aborted: the warm
            # child has executed exactly the cold program, so the comparison could only test the
            # determinism of the harness (the self-test does that). No fork.
            producing = {r["id"] for r in warm["records"] if r["id"] in prefix and r["status"] != "noop"}
            if producing <= set(sx.cone_of(by_id, sid)):
                probes.append({"id": sid, "verdict": "trivial"})
                continue
        if rec["status"] == "fuel":
            probes.append({"id": sid, "verdict": "inconclusive", "why": "fuel"})
            continue
        todo.append(rec)
    if max_probes and len(todo) > max_probes:
        # long histories: probe the last steps densely (they have the most history behind them) and
        # the earlier ones sparsely; deterministic, no PRNG
        tail = max_probes * 2 // 3
        head = todo[:-tail]
        stride = max(1, len(head) // (max_probes - tail))
        kept = head[::stride][: max_probes - tail] + todo[-tail:]
        for rec in todo:
            if rec not in kept:
                probes.append({"id": rec["id"], "verdict": "unsampled"})
        todo = kept
    # ---- phase 2: cold results ------------------------------------------------------------------
    cold_of = {}
    cached_ids = set()
    keys = {}
    need = []
    for rec in todo:
        sid = rec["id"]
        keys[sid] = canon_cone(sx.cold_program(by_id, sid))
        if keys[sid] in cold_cache:
            cold_of[sid] = cold_cache[keys[sid]]
            cached_ids.add(sid)
        elif any(keys[o] == keys[sid] for o in need):
            pass  # same cone text as an earlier probe of this run: filled in below
        else:
            need.append(sid)
    forks = 0
    cold_clock = 0
    if chains:
        for chain in plan_chains(by_id, need):
            forks += 1
            colds, clk = cold_chain_run(by_id, chain, envs, fuel=fuel)
            cold_clock += clk
            for probe, cold in colds.items():
                cold_of[probe] = cold
                if "__harness__" not in cold:
                    cold_cache[keys[probe]] = cold
    else:
        for sid in need:
            forks += 1
            cold = cold_run(sx.cold_program(by_id, sid), envs, fuel=fuel)
            cold_of[sid] = cold
            cold_clock += cold.get("clock", 0)
            if "__harness__" not in cold:
                cold_cache[keys[sid]] = cold
    # ---- phase 3: verdicts ----------------------------------------------------------------------
    for rec in todo:
        sid = rec["id"]
        cold = cold_of.get(sid)
        cached = sid in cached_ids
        if cold is None:
            cold = cold_cache.get(keys[sid])
            cached = True
        if cold is None:
            cold = {"__harness__": "crash", "trace": "no cold result"}
        verdict = classify(rec, cold)
        p = {"id": sid, "cone": keys[sid].count("[") - 1, "cached": cached}
        if verdict is None:
            p["verdict"] = "agree"
        elif verdict[0] == "inconclusive":
            p["verdict"] = "inconclusive"
            p["why"] = verdict[1]
        elif verdict[0] == "harness":
            p["verdict"] = "harness"
            harness.append(("cold", verdict[1], cold.get("trace")))
        else:
            p["verdict"] = "diverge"
            p["class"] = verdict[0]
            divergences.append({"id": sid, "class": verdict[0], "detail": verdict[1]})
        if "record" in cold:
            p["cold_digest"] = sx.obs_digest(cold["record"].get("obs", {"exc": cold["record"].get("exc", cold["record"]["status"])}))
            p["cold_clock"] = cold["clock"]
        probes.append(p)
    probes.sort(key=lambda p: p["id"])
    return {"warm": warm, "probes": probes, "divergences": divergences, "harness": harness, "steps": steps,
            "cold_forks": forks, "cold_clock": cold_clock}


def event_log_digest(steps, result):
    """SHA-256 over everything the run decided and observed (no wall clock, no pids)."""
    h = hashlib.sha256()
    warm = result["warm"]
    for st in steps:
        h.update(json.dumps({k: v for k, v in st.items() if k != "ast"}, sort_keys=True).encode())
    for rec in warm.get("records", []):
        h.update(json.dumps(rec, sort_keys=True).encode())
    for p in result["probes"]:
        # "cached" says whether the cold reference was reused from an earlier schedule: a cost artefact
        h.update(json.dumps({k: v for k, v in p.items() if k not in ("cached", "cold_clock")}, sort_keys=True).encode())
    if "shim" in warm:
        h.update(json.dumps(warm["shim"], sort_keys=True).encode())
    h.update(json.dumps(warm.get("entered", {}), sort_keys=True).encode())
    h.update(str(warm.get("clock")).encode())
    return h.hexdigest()
