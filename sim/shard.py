"""Pristine parent + fork plumbing + the warm/cold oracle.

The process that imports this module is the *pristine parent* of a shard: it imports
dep_logic (so that a forked child is "a fresh interpreter right after import") but
never calls into it. Every execution of library code happens in a forked child that
reports through a pipe and exits.
"""

from __future__ import annotations

import hashlib
import json
import os
import select
import signal
import sys
import time
import traceback

from sim import exec as sx
from sim import gen
from sim import shim as sshim

# imported for its side effect: module state after import == fresh interpreter after import
import dep_logic.markers  # noqa: F401,E402
import dep_logic.specifiers  # noqa: F401,E402
import dep_logic.utils  # noqa: F401,E402

DEFAULT_FUEL = 60_000
CHILD_DEADLINE_S = 180.0


class HarnessError(Exception):
    pass


def assert_pristine():
    sizes = sshim.cache_sizes()
    dirty = {k: v for k, v in sizes.items() if v}
    if dirty:
        raise HarnessError(f"pristine parent has populated caches: {dirty}")
    return sizes


def fork_call(fn, deadline_s=CHILD_DEADLINE_S):
    """Run fn() in a forked child; return its JSON-able result.

    Returns {"__harness__": "timeout"|"crash", ...} when the child did not deliver.
    """
    r, w = os.pipe()
    sys.stdout.flush()
    sys.stderr.flush()
    pid = os.fork()
    if pid == 0:
        code = 0
        try:
            os.close(r)
            os.setsid()  # own process group: a timeout kills scouts (grandchildren) too
            for sig in (signal.SIGALRM, signal.SIGINT, signal.SIGTERM):
                signal.signal(sig, signal.SIG_DFL)
            try:
                out = fn()
            except BaseException:  # noqa: BLE001
                out = {"__harness__": "crash", "trace": traceback.format_exc()}
            data = json.dumps(out).encode()
            view = memoryview(data)
            while view:
                n = os.write(w, view)
                view = view[n:]
        except BaseException:  # noqa: BLE001
            code = 3
        finally:
            os._exit(code)
    os.close(w)
    chunks = []
    end = time.monotonic() + deadline_s
    timed_out = False
    try:
        while True:
            left = end - time.monotonic()
            if left <= 0:
                timed_out = True
                break
            ready, _, _ = select.select([r], [], [], min(left, 5.0))
            if not ready:
                continue
            chunk = os.read(r, 1 << 16)
            if not chunk:
                break
            chunks.append(chunk)
    finally:
        os.close(r)
        if timed_out:
            try:
                os.killpg(pid, signal.SIGKILL)
            except (ProcessLookupError, PermissionError):
                try:
                    os.kill(pid, signal.SIGKILL)
                except ProcessLookupError:
                    pass
        _, status = os.waitpid(pid, 0)
    if timed_out:
        return {"__harness__": "timeout"}
    try:
        return json.loads(b"".join(chunks))
    except ValueError:
        return {"__harness__": "crash", "trace": f"child exit status {status}, {sum(map(len, chunks))} bytes"}


# ---------------------------------------------------------------------------
# warm and cold executions
# ---------------------------------------------------------------------------


def warm_run(steps, envs, *, fuel, shims, faults=True, late_observe=True):
    def child():
        shim = None
        if shims:
            shim = sshim.Shim()
            shim.install()
            by_id = {s["id"]: s for s in steps}
            shim.cones = {s["id"]: frozenset(sx.cone_of(by_id, s["id"]))
                          for s in steps if s["op"] in ("parse", "and", "or", "reparse", "echo")}
        recs = sx.run_steps(steps, envs, faults=faults, fuel=fuel, shim=shim, late_observe=late_observe)
        out = {"records": recs, "clock": sx.CLOCK.now, "entered": sx.entered_summary()}
        if shim is not None:
            out["shim"] = shim.summary()
        else:
            out["sizes"] = sshim.cache_sizes()
        return out

    return fork_call(child)


def cold_run(cold_steps, envs, *, fuel):
    """Run a cone program in a fresh fork; return the record of its LAST step plus cone health."""
    target = cold_steps[-1]["id"]

    def child():
        recs = sx.run_steps(cold_steps, envs, faults=False, fuel=fuel, observe_ids={target})
        last = recs[-1]
        bad = [r["id"] for r in recs[:-1] if r["status"] != "ok"]
        return {"record": last, "cone_bad": bad, "clock": sx.CLOCK.now}

    return fork_call(child)


def canon_cone(cold_steps):
    """Canonical (renumbered) form of a cone program: the memo key for cold results."""
    ren = {}
    out = []
    for st in cold_steps:
        ren[st["id"]] = len(ren)
        item = [st["op"]]
        if "text" in st:
            item.append(st["text"])
        for k in ("a", "b"):
            if k in st:
                item.append(ren[st[k]])
        out.append(item)
    return json.dumps(out)


def classify(warm_rec, cold):
    """None | ("inconclusive", why) | ("text"|"meaning"|"status", detail)."""
    if "__harness__" in cold:
        return ("harness", cold["__harness__"])
    crec = cold["record"]
    if cold["cone_bad"]:
        return ("inconclusive", "cone step failed in the cold run")
    ws, cs = warm_rec["status"], crec["status"]
    if ws == "fuel" or cs == "fuel":
        return ("inconclusive", "fuel")
    if ws == "raised" and warm_rec.get("exc") == "RecursionError":
        return ("inconclusive", "natural RecursionError (warm)")
    if cs == "raised" and crec.get("exc") == "RecursionError":
        return ("inconclusive", "natural RecursionError (cold)")
    if ws != cs:
        return ("status", {"warm": ws + ":" + str(warm_rec.get("exc", "")), "cold": cs + ":" + str(crec.get("exc", ""))})
    if ws == "raised":
        if warm_rec.get("exc") != crec.get("exc"):
            return ("status", {"warm": "raised:" + str(warm_rec.get("exc")), "cold": "raised:" + str(crec.get("exc"))})
        return None
    wo, co = warm_rec["obs"], crec["obs"]
    if wo == co:
        return None
    if wo["tv"] != co["tv"] or wo["flags"] != co["flags"]:
        return ("meaning", {"warm": wo, "cold": co})
    return ("text", {"warm": wo, "cold": co})


def evaluate_program(steps, envs, *, fuel=DEFAULT_FUEL, shims=False, faults=True, only=None,
                     cold_cache=None, skip_trivial=False):
    """Warm run + one cold run per completed producing step (or only ``only``).

    Returns dict(warm=…, probes=[{id, verdict, …}], divergences=[…], harness=[…]).
    """
    warm = warm_run(steps, envs, fuel=fuel, shims=shims, faults=faults)
    if "__harness__" in warm:
        return {"warm": warm, "probes": [], "divergences": [], "harness": [("warm", warm["__harness__"], warm.get("trace"))]}
    steps = sx.concretise(steps, warm["records"])
    by_id = {s["id"]: s for s in steps}
    probes = []
    divergences = []
    harness = []
    cold_cache = cold_cache if cold_cache is not None else {}
    disturbed = False  # an abort, failure or fuel exhaustion happened so far: warm prefix != fault-free prefix
    prefix = set()
    for rec in warm["records"]:
        sid = rec["id"]
        prefix.add(sid)
        was_disturbed = disturbed
        if rec["status"] in ("aborted", "raised", "fuel") or rec.get("attempts", 1) > 1 or (rec.get("fault") or {}).get("fired"):
            disturbed = True
        if only is not None and sid not in only:
            continue
        if rec["status"] not in ("ok", "raised", "fuel"):
            continue
        if skip_trivial and not was_disturbed and rec["status"] == "ok" and rec.get("attempts", 1) == 1 \
                and not (rec.get("fault") or {}).get("fired"):
            # every step executed so far is in this probe's cone and nothing was aborted: the warm
            # child has executed exactly the cold program, so the comparison could only test the
            # determinism of the harness (the self-test does that). No fork.
            producing = {r["id"] for r in warm["records"] if r["id"] in prefix and r["status"] != "noop"}
            if producing <= set(sx.cone_of(by_id, sid)):
                probes.append({"id": sid, "verdict": "trivial"})
                continue
        if rec["status"] == "fuel":
            probes.append({"id": sid, "verdict": "inconclusive", "why": "fuel"})
            continue
        cprog = sx.cold_program(by_id, sid)
        key = canon_cone(cprog)
        cold = cold_cache.get(key)
        cached = cold is not None
        if cold is None:
            cold = cold_run(cprog, envs, fuel=fuel)
            if "__harness__" not in cold:
                cold_cache[key] = cold
        verdict = classify(rec, cold)
        p = {"id": sid, "cone": len(cprog), "cached": cached}
        if verdict is None:
            p["verdict"] = "agree"
        elif verdict[0] == "inconclusive":
            p["verdict"] = "inconclusive"
            p["why"] = verdict[1]
        elif verdict[0] == "harness":
            p["verdict"] = "harness"
            harness.append(("cold", verdict[1], cold.get("trace")))
        else:
            p["verdict"] = "diverge"
            p["class"] = verdict[0]
            divergences.append({"id": sid, "class": verdict[0], "detail": verdict[1]})
        if "record" in cold:
            p["cold_digest"] = sx.obs_digest(cold["record"].get("obs", {"exc": cold["record"].get("exc", cold["record"]["status"])}))
            p["cold_clock"] = cold["clock"]
        probes.append(p)
    return {"warm": warm, "probes": probes, "divergences": divergences, "harness": harness, "steps": steps}


def event_log_digest(steps, result):
    """SHA-256 over everything the run decided and observed (no wall clock, no pids)."""
    h = hashlib.sha256()
    warm = result["warm"]
    for st in steps:
        h.update(json.dumps({k: v for k, v in st.items() if k != "ast"}, sort_keys=True).encode())
    for rec in warm.get("records", []):
        h.update(json.dumps(rec, sort_keys=True).encode())
    for p in result["probes"]:
        h.update(json.dumps(p, sort_keys=True).encode())
    if "shim" in warm:
        h.update(json.dumps(warm["shim"], sort_keys=True).encode())
    h.update(json.dumps(warm.get("entered", {}), sort_keys=True).encode())
    h.update(str(warm.get("clock")).encode())
    return h.hexdigest()
