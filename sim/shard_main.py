"""Entry point of one shard process (a fresh interpreter with a pinned PYTHONHASHSEED).

Modes:
  --runs A:B       random search: runs A..B-1 of logical shard --shard under --seed
  --replay FILE    replay one replay/corpus document
  --gen-digest     emit only the digest of the generated programs (generator determinism test)
  --subprocess-oracle N   validate the fork oracle against real fresh interpreters on N probes
Prints one JSON document on the last line of stdout.
"""

from __future__ import annotations

import argparse
import hashlib
import json
import os
import random
import sys
import time

HERE = os.path.dirname(os.path.abspath(__file__))
sys.path.insert(0, os.path.dirname(HERE))


def _args():
    ap = argparse.ArgumentParser()
    ap.add_argument("--seed", type=int, default=0)
    ap.add_argument("--shard", type=int, default=0)
    ap.add_argument("--runs", default="0:10")
    ap.add_argument("--fuel", type=int, default=0)
    ap.add_argument("--replay")
    ap.add_argument("--replay-all", action="store_true", help="with --replay: check every step of the history, not only the recorded one")
    ap.add_argument("--gen-digest", action="store_true")
    ap.add_argument("--cold-exec", help="internal: run a cone program from this JSON file in THIS fresh interpreter")
    ap.add_argument("--record", help="hand-written history {title, steps}: record its first divergence as a corpus entry")
    ap.add_argument("--out")
    ap.add_argument("--oracle-pair", help="internal: {steps, envs, sid, fuel}: fork-cold vs fresh-interpreter-cold")
    ap.add_argument("--replay-dir", default=os.path.join(os.path.dirname(HERE), "replays"))
    ap.add_argument("--max-minimise", type=int, default=1)
    ap.add_argument("--fault-class", choices=["mixed", "on", "off"], default="mixed")
    ap.add_argument("--wall-cap", type=float, default=0.0, help="safety cap in seconds; 0 = none")
    ap.add_argument("--samples", type=int, default=1)
    ap.add_argument("--sweeps", help="A:B = crash-point sweeps A..B-1 of this shard instead of random runs")
    return ap.parse_args()


def gen_digest(seed, shard, lo, hi, fault_class):
    from sim import gen

    h = hashlib.sha256()
    for run in range(lo, hi):
        prog, envs, _ = gen.program_for_run(seed, shard, run, fault_class)
        h.update(json.dumps([prog, envs], sort_keys=True).encode())
    return h.hexdigest()


def _add(d, k, n=1):
    d[k] = d.get(k, 0) + n


def report_divergence(a, vio, steps, envs, d0, fuel, fname, meta):
    """Minimise, write the replay file, fill ``vio`` (path, minimised size, flags)."""
    from sim import shrink

    mini = shrink.Minimiser(steps, envs, d0["id"], d0["class"], fuel=fuel)
    best = mini.run()
    path = os.path.join(a.replay_dir, fname)
    common = {"hash_seed": int(os.environ.get("PYTHONHASHSEED", "0") or 0), "fuel": fuel, "original_steps": len(steps),
              "candidates_tried": mini.candidates, **meta}
    if best is None:
        # seen once, not again in 6 immediate re-runs: the manifestation is not a function of
        # the program alone (object addresses / heap layout). Both executions were real, so it
        # is still a divergence; keep the whole program, unminimised, and say so.
        shrink.write_replay(path, steps=[dict(s) for s in steps], envs=envs, sid=d0["id"], klass=d0["class"],
                            detail=d0["detail"],
                            meta={**common, "minimised_steps": len(steps), "flaky": True, "observe": "all",
                                  "unreproduced_in_shard": True})
        vio["replay"] = path
        vio["minimised_steps"] = len(steps)
        vio["unreproduced_in_shard"] = True
    else:
        ren, sid = shrink.renumber(best, d0["id"])
        shrink.write_replay(path, steps=ren, envs=envs, sid=sid, klass=d0["class"], detail=mini.last_detail,
                            meta={**common, "minimised_steps": len(ren), "flaky": mini.flaky, "observe": mini.observe})
        vio["replay"] = path
        vio["minimised_steps"] = len(ren)


def fault_sweeps(a, lo, hi, fuel):
    """Crash-point enumeration over sampled histories: for a seeded fault-free program, one target
    operation is aborted at EVERY logical step of its execution (all steps up to 150, evenly spaced
    beyond), one warm run per position; cold references are computed once and shared."""
    from sim import gen, shard as sh

    out = {"sweeps": 0, "positions": 0, "fired": 0, "probes": 0, "agree": 0, "inconclusive": 0, "diverge": {},
           "diverging_positions": 0, "violations": [], "harness": [], "sites": {}, "target_ops": {}, "target_lengths": []}
    kinds = list(gen.FAULT_KINDS)
    minimised = 0
    for k in range(lo, hi):
        rs = gen.run_seed(a.seed, a.shard, 10_000_000 + k)
        rng = random.Random(rs)
        base = gen.gen_scripts(rng, False)
        if base["config"].get("marathon"):
            continue
        prog = gen.schedule_program(rng, base)
        steps = [dict(s) for s in prog["steps"]]
        for s in steps:
            s.pop("fault", None)
        envs = gen.make_envs(steps)
        cold_cache = {}
        base_res = sh.evaluate_program(steps, envs, fuel=fuel, shims=False, cold_cache=cold_cache)
        if base_res["harness"]:
            out["harness"].append({"sweep": k, "what": base_res["harness"]})
            continue
        steps = base_res["steps"]  # echoes concretised: the text no longer depends on the fault
        lengths = {r["id"]: r["clock"] - r["clock0"] for r in base_res["warm"]["records"] if r["status"] == "ok"}
        if base_res["warm"]["clock"] > 40_000:
            continue  # every position re-runs the whole history: keep sweeps to histories that are cheap to repeat
        cands = [s["id"] for s in steps if s["op"] in ("and", "or", "reparse", "parse") and 8 <= lengths.get(s["id"], 0) <= 6000
                 and s["id"] < len(steps) - 1]
        if not cands:
            continue
        heavy = [c for c in cands if steps[c]["op"] in ("and", "or")]
        # two targets: a random heavy operation, and the first sizeable operation of the process (where
        # lazily initialised state is built for the first time)
        targets = [rng.choice(heavy or cands)]
        if cands[0] not in targets and rng.random() < 0.5:
            targets.append(cands[0])
        out["sweeps"] += 1
        retry = rng.random() < 0.7
        for target in targets:
            length = lengths[target]
            cap = 64 if target == targets[0] else 32
            positions = list(range(1, length + 1)) if length <= cap else sorted({1 + int(i * (length - 1) / (cap - 1)) for i in range(cap)})
            out["target_ops"][steps[target]["op"]] = out["target_ops"].get(steps[target]["op"], 0) + 1
            out["target_lengths"].append(length)
            for pos in positions:
                variant = [dict(s) for s in steps]
                variant[target]["fault"] = {"exc": kinds[pos % len(kinds)], "at": pos, "retry": retry}
                res = sh.evaluate_program(variant, envs, fuel=fuel, shims=False, cold_cache=cold_cache, skip_trivial=True)
                if res["harness"]:
                    out["harness"].append({"sweep": k, "pos": pos, "what": res["harness"]})
                    continue
                out["positions"] += 1
                rec = res["warm"]["records"][target]
                if (rec.get("fault") or {}).get("fired"):
                    out["fired"] += 1
                    site = rec["fault"].get("site") or "?"
                    out["sites"][site] = out["sites"].get(site, 0) + 1
                for p in res["probes"]:
                    if p["verdict"] in ("trivial", "unsampled"):
                        continue
                    out["probes"] += 1
                    if p["verdict"] == "agree":
                        out["agree"] += 1
                    elif p["verdict"] == "inconclusive":
                        out["inconclusive"] += 1
                    elif p["verdict"] == "diverge":
                        out["diverge"][p["class"]] = out["diverge"].get(p["class"], 0) + 1
                if res["divergences"]:
                    out["diverging_positions"] += 1
                    d0 = res["divergences"][0]
                    vio = {"run": f"sweep{k}@{target}:{pos}", "run_seed": rs, "step": d0["id"], "class": d0["class"],
                           "n_steps": len(variant), "faulted": True, "all": [[d["id"], d["class"]] for d in res["divergences"]]}
                    if minimised < a.max_minimise:
                        minimised += 1
                        report_divergence(a, vio, variant, envs, d0, fuel, f"C10-{a.seed}-{a.shard}-sweep{k}-{target}-{pos}.json",
                                          {"verif_seed": a.seed, "shard": a.shard, "sweep": k, "target": target, "position": pos,
                                           "run_seed": rs})
                    out["violations"].append(vio)
    return out


def main():
    a = _args()
    lo, hi = (int(x) for x in a.runs.split(":"))
    fclass = {"mixed": None, "on": True, "off": False}[a.fault_class]
    if a.gen_digest:
        print(json.dumps({"gen_digest": gen_digest(a.seed, a.shard, lo, hi, fclass),
                          "hash_seed": os.environ.get("PYTHONHASHSEED")}))
        return 0

    if a.cold_exec:
        # a REAL fresh interpreter executing a cone program: used to validate the fork oracle
        from sim import exec as sx

        # same starting point as a child forked from the pristine parent: the package is imported
        # (module bodies executed) before any operation runs and before the logical clock is armed
        import dep_logic.markers  # noqa: F401
        import dep_logic.specifiers  # noqa: F401
        import dep_logic.utils  # noqa: F401

        with open(a.cold_exec) as f:
            doc = json.load(f)
        recs = sx.run_steps(doc["steps"], doc["envs"], faults=False, fuel=doc["fuel"], observe_ids={doc["steps"][-1]["id"]})
        print(json.dumps({"record": recs[-1], "cone_bad": [r["id"] for r in recs[:-1] if r["status"] != "ok"], "clock": sx.CLOCK.now}))
        return 0

    from sim import gen, shard as sh, shrink
    from sim import exec as sx

    fuel = a.fuel or sh.DEFAULT_FUEL
    pristine_sizes = sh.assert_pristine()

    if a.oracle_pair:
        import subprocess
        import tempfile

        with open(a.oracle_pair) as f:
            doc = json.load(f)
        by_id = {s["id"]: s for s in doc["steps"]}
        cprog = sx.cold_program(by_id, doc["sid"])
        fork = sh.cold_run(cprog, doc["envs"], fuel=doc["fuel"])
        with tempfile.NamedTemporaryFile("w", suffix=".json", delete=False) as tf:
            json.dump({"steps": cprog, "envs": doc["envs"], "fuel": doc["fuel"]}, tf)
        try:
            p = subprocess.run([sys.executable, "-B", os.path.abspath(__file__), "--cold-exec", tf.name],
                               capture_output=True, text=True, timeout=600)
            fresh = json.loads(p.stdout.strip().splitlines()[-1])
        finally:
            os.unlink(tf.name)
        print(json.dumps({"fork": fork, "fresh": fresh, "cone": len(cprog)}))
        return 0

    if a.record:
        with open(a.record) as f:
            doc = json.load(f)
        steps = doc["steps"]
        for i, st in enumerate(steps):
            st.setdefault("id", i)
            st.setdefault("c", 0)
        envs = doc.get("envs") or gen.make_envs_from_texts([s["text"] for s in steps if "text" in s])
        res = sh.evaluate_program(steps, envs, fuel=fuel, shims=False)
        if not res["divergences"]:
            print(json.dumps({"recorded": False, "why": "no divergence on this tree"}))
            return 0
        d0 = res["divergences"][0]
        mini = shrink.Minimiser(steps, envs, d0["id"], d0["class"], fuel=fuel)
        best = mini.run() or steps
        ren, sid = shrink.renumber(best, d0["id"])
        shrink.write_replay(a.out, steps=ren, envs=envs, sid=sid, klass=d0["class"], detail=mini.last_detail or d0["detail"],
                            meta={"title": doc.get("title", ""), "origin": doc.get("origin", "hand-written"),
                                  "hash_seed": int(os.environ.get("PYTHONHASHSEED", "0") or 0), "fuel": fuel,
                                  "original_steps": len(steps), "minimised_steps": len(ren)})
        print(json.dumps({"recorded": True, "class": d0["class"], "step": sid, "steps": len(ren), "detail": mini.last_detail}))
        return 0

    if a.replay:
        with open(a.replay) as f:
            doc = json.load(f)
        if a.replay_all:
            res = sh.evaluate_program(doc["steps"], doc["envs"], fuel=doc.get("fuel", fuel), shims=False)
            if res["harness"]:
                raise sh.HarnessError(str(res["harness"]))
            sh.assert_pristine()
            ds = res["divergences"]
            print(json.dumps({"replay": a.replay, "reproduced": False, "diverged": bool(ds), "observed": ds[0] if ds else None,
                              "all": [[d["id"], d["class"]] for d in ds], "probes": len(res["probes"]),
                              "hash_seed": os.environ.get("PYTHONHASHSEED")}))
            return 0
        same, d, used = shrink.replay(doc, fuel=doc.get("fuel", fuel), attempts=8 if doc.get("flaky") else 1)
        sh.assert_pristine()
        print(json.dumps({"replay": a.replay, "reproduced": bool(same), "diverged": d is not None, "attempts": used,
                          "observed": d, "hash_seed": os.environ.get("PYTHONHASHSEED")}))
        return 0

    if a.sweeps:
        slo, shi = (int(x) for x in a.sweeps.split(":"))
        t0 = time.monotonic()
        out = fault_sweeps(a, slo, shi, fuel)
        sh.assert_pristine()
        out["hash_seed"] = os.environ.get("PYTHONHASHSEED")
        out["wall_s"] = round(time.monotonic() - t0, 3)
        print(json.dumps(out))
        return 0

    t0 = time.monotonic()
    out = {
        "seed": a.seed, "shard": a.shard, "runs_range": [lo, hi], "hash_seed": os.environ.get("PYTHONHASHSEED"),
        "fuel": fuel, "caches_discovered": sorted(pristine_sizes),
        "runs": 0, "runs_faulted": 0, "runs_faultfree": 0, "runs_shimmed": 0,
        "steps": 0, "trivial_skipped": 0, "unsampled": 0, "marathons": 0, "saturations": 0, "heavies": 0, "max_steps_in_a_run": 0, "probes": 0, "probes_faulted": 0, "probes_faultfree": 0, "agree": 0,
        "inconclusive": {}, "diverge": {}, "diverge_faulted": 0, "diverge_faultfree": 0, "diverging_runs": 0,
        "faults_armed": {}, "faults_fired": {}, "faults_swallowed": 0, "retries_ok": 0,
        "natural_failures": {}, "ops": {}, "skipped": 0, "late_drift": 0,
        "clock_warm": 0, "clock_cold": 0, "cold_forks": 0, "cold_cached": 0,
        "shim_totals": {}, "rare": {}, "signatures": [], "nontrivial": [], "populations": [],
        "digests": [], "samples": [], "violations": [], "harness": [], "truncated": False,
        "flavours": {}, "schedules": {}, "wall_by_kind": {}, "functions_entered": {}, "fault_sites": {},
    }
    sigs = set()
    nontrivial = set()
    pops = set()
    minimised = 0
    cold_group, cold_cache = None, {}
    for run in range(lo, hi):
        if a.wall_cap and time.monotonic() - t0 > a.wall_cap:
            out["truncated"] = True
            break
        rs = gen.run_seed(a.seed, a.shard, run)
        prog, envs, group = gen.program_for_run(a.seed, a.shard, run, fclass)
        steps = prog["steps"]
        cfg = prog["config"]
        if group != cold_group:
            cold_group, cold_cache = group, {}  # cold references are shared by the schedules of one script set
        t_run = time.monotonic()
        res = sh.evaluate_program(steps, envs, fuel=fuel, shims=cfg["shims"], skip_trivial=True, max_probes=cfg.get("max_probes", 40),
                                  cold_cache=cold_cache)
        kind_name = "marathon" if cfg.get("marathon") else "saturation" if cfg.get("saturation") else "heavy" if cfg.get("heavy") else "plain"
        kt = out["wall_by_kind"].setdefault(kind_name, {"runs": 0, "wall_s": 0.0})
        kt["runs"] += 1
        kt["wall_s"] = round(kt["wall_s"] + time.monotonic() - t_run, 3)
        if res["harness"]:
            out["harness"].append({"run": run, "what": res["harness"]})
            continue
        steps = res["steps"]  # echo steps concretised into literal parses
        digest = sh.event_log_digest(steps, res)
        out["digests"].append([run, digest])
        out["runs"] += 1
        faulted = bool(cfg["faults"])
        out["runs_faulted" if faulted else "runs_faultfree"] += 1
        _add(out["flavours"], cfg["flavour"])
        _add(out["schedules"], cfg["schedule"])
        out["steps"] += len(steps)
        out["marathons"] += 1 if cfg.get("marathon") else 0
        out["saturations"] += 1 if cfg.get("saturation") else 0
        out["heavies"] += 1 if cfg.get("heavy") else 0
        out["max_steps_in_a_run"] = max(out["max_steps_in_a_run"], len(steps))
        warm = res["warm"]
        out["clock_warm"] += warm["clock"]
        out["cold_forks"] += res.get("cold_forks", 0)
        out["clock_cold"] += res.get("cold_clock", 0)
        for fn, n in warm.get("entered", {}).items():
            _add(out["functions_entered"], fn, n)
        any_fired = False
        for st, rec in zip(steps, warm["records"]):
            _add(out["ops"], st["op"])
            if rec["status"] == "skipped":
                out["skipped"] += 1
            if rec["status"] == "raised":
                _add(out["natural_failures"], rec.get("exc", "?"))
            if "fault" in rec:
                _add(out["faults_armed"], rec["fault"]["exc"])
                if rec["fault"]["fired"]:
                    any_fired = True
                    _add(out["faults_fired"], rec["fault"]["exc"])
                    _add(out["fault_sites"], rec["fault"].get("site") or "?")
                    if rec["status"] == "ok" and rec["attempts"] == 1:
                        out["faults_swallowed"] += 1
                    if rec["status"] == "ok" and rec["attempts"] == 2:
                        out["retries_ok"] += 1
            if "late_drift" in rec:
                out["late_drift"] += 1
        by_id = {s["id"]: s for s in steps}
        per_op = warm.get("shim", {}).get("per_op", {})
        for p in res["probes"]:
            out["probes"] += 1
            out["probes_faulted" if faulted else "probes_faultfree"] += 1
            if p.get("cached"):
                out["cold_cached"] += 1

            v = p["verdict"]
            if v == "unsampled":
                out["probes"] -= 1
                out["probes_faulted" if faulted else "probes_faultfree"] -= 1
                out["unsampled"] += 1
            elif v == "trivial":
                out["probes"] -= 1
                out["probes_faulted" if faulted else "probes_faultfree"] -= 1
                out["trivial_skipped"] += 1
            elif v == "agree":
                out["agree"] += 1
            elif v == "inconclusive":
                _add(out["inconclusive"], p["why"])
            elif v == "diverge":
                _add(out["diverge"], p["class"])
                out["diverge_faulted" if faulted else "diverge_faultfree"] += 1
            if cfg["shims"] and str(p["id"]) in per_op:
                m = per_op[str(p["id"])]
                conekey = hashlib.sha1(sh.canon_cone(sx.cold_program(by_id, p["id"])).encode()).hexdigest()[:12]
                sig = conekey + ":" + m["sig"]
                sigs.add(sig)
                if m["foreign"] > 0:
                    nontrivial.add(sig)
        if cfg["shims"]:
            out["runs_shimmed"] += 1
            sm = warm["shim"]
            pops.add(sm["population"])
            for cname, tot in sm["totals"].items():
                agg = out["shim_totals"].setdefault(cname, {})
                for k, n in tot.items():
                    _add(agg, k, n)
            for k, n in sm["rare"].items():
                _add(out["rare"], k, n)
        if len(out["samples"]) < a.samples and (any_fired or not faulted) and res["probes"]:
            out["samples"].append({
                "run": run, "run_seed": rs, "flavour": cfg["flavour"], "schedule": cfg["schedule"], "roles": prog["roles"],
                "steps": [{k: v for k, v in s.items() if k != "ast"} for s in steps],
                "outcome": [{"id": r["id"], "status": r["status"], "clock": r["clock"],
                             **({"fault": r["fault"]} if "fault" in r else {}),
                             **({"text": r["obs"]["text"]} if "obs" in r else {})} for r in warm["records"]],
                "verdicts": [{"id": p["id"], "verdict": p["verdict"]} for p in res["probes"]],
            })
        if res["divergences"]:
            out["diverging_runs"] += 1
            d0 = res["divergences"][0]
            vio = {"run": run, "run_seed": rs, "step": d0["id"], "class": d0["class"], "n_steps": len(steps),
                   "faulted": faulted, "all": [[d["id"], d["class"]] for d in res["divergences"]],
                   "cfg": {"flavour": cfg["flavour"], "schedule": cfg["schedule"], "variant": run % gen.VARIANTS,
                           "kind": "marathon" if cfg.get("marathon") else "saturation" if cfg.get("saturation") else
                                   "heavy" if cfg.get("heavy") else "plain",
                           "borrow": bool(cfg.get("p_borrow")), "battery": bool(cfg.get("battery")), "echo": bool(cfg.get("p_echo")),
                           "roundtrip": bool(cfg.get("roundtrip")), "op": by_id[d0["id"]]["op"],
                           "probe_client_role": (prog["roles"] + ["battery"])[by_id[d0["id"]]["c"]] if by_id[d0["id"]]["c"] < len(prog["roles"]) + 1 else "?"}}
            if minimised < a.max_minimise:
                minimised += 1
                report_divergence(a, vio, steps, envs, d0, fuel, f"C10-{a.seed}-{a.shard}-{run}.json",
                                  {"verif_seed": a.seed, "shard": a.shard, "run": run, "run_seed": rs, "event_log_digest": digest})
            out["violations"].append(vio)
    sh.assert_pristine()
    out["signatures"] = sorted(sigs)
    out["nontrivial"] = sorted(nontrivial)
    out["populations"] = sorted(pops)
    out["wall_s"] = round(time.monotonic() - t0, 3)
    print(json.dumps(out))
    return 0


if __name__ == "__main__":
    try:
        sys.exit(main())
    except Exception as e:  # noqa: BLE001
        import traceback

        traceback.print_exc()
        print(json.dumps({"fatal": f"{type(e).__name__}: {e}"}))
        sys.exit(2)
