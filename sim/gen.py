"""Workload generator for the C10 simulation.

Everything here is a pure function of a ``random.Random`` instance: marker ASTs,
their renderings, the alias-aggressor respelling rewrites, client scripts, the
schedule that interleaves them, fault placement and the environment grid.

This module imports NOTHING from dep_logic or packaging: the pristine parent of a
shard runs it, and the pristine parent must never execute library code.

AST (JSON friendly):
    ["atom", name, op, value, flipped]
    ["and", child, child, ...]
    ["or",  child, child, ...]
"""

from __future__ import annotations

import random

# --------------------------------------------------------------------------
# literal pools
# --------------------------------------------------------------------------

STRING_VARS = {
    "os_name": ["nt", "posix", "java"],
    "sys_platform": ["linux", "win32", "darwin", "linux2", "win"],
    "platform_machine": ["x86_64", "arm64", "aarch64", "x86"],
    "implementation_name": ["cpython", "pypy"],
    "platform_system": ["Linux", "Windows", "Darwin"],
    "platform_python_implementation": ["CPython", "PyPy"],
    "implementation_version": ["3.8.1", "3.10.0", "3.9"],
    "platform_version": ["#1 SMP", "#1  SMP", "#1 SMP PREEMPT", "Darwin Kernel Version 21.6.0"],
}
# platform_release is version-like for the library but real values often are not PEP 440 versions
RELEASE_VALUES = ["5.4", "5.10", "5.10.0", "6", "6.1", "5.10.0-generic", "5.15.0-91-generic"]
EXTRA_VALUES = ["foo", "bar", "Foo_Bar", "foo-bar", "foo.bar", "baz"]
VERSION_VARS = ("python_version", "python_full_version")
# (major, minor) bases; every run picks a small sub-pool so that literals collide
VERSION_BASES = [(2, 7), (3, 0), (3, 5), (3, 6), (3, 7), (3, 8), (3, 9), (3, 10), (3, 11), (4, 0)]
# PEP 345 style spellings that packaging (and the library's patched tokenizer) accept for the same variable
NAME_ALIASES = {"os_name": "os.name", "sys_platform": "sys.platform", "platform_machine": "platform.machine",
                "platform_python_implementation": "python_implementation"}
REFLECT = {"<": ">", "<=": ">=", ">": "<", ">=": "<=", "==": "==", "!=": "!=", "~=": "~=",
           "in": "in", "not in": "not in"}
ORDER_OPS = [">=", "<", "==", "!=", ">", "<=", "~="]


def exotic_families(base):
    """Spellings PEP 440 normalises to the same version, beyond trailing zeros: pre-, post- and
    development releases, an explicit zero epoch, a non-zero epoch, local versions, the ``v`` prefix and
    leading zeros.  One family = one version; the families of one base are neighbours in version order."""
    a, b = base
    return {
        "rc": [f"{a}.{b}.0rc1", f"{a}.{b}rc1", f"{a}.{b}.0c1", f"{a}.{b}.0-rc.1", f"{a}.{b}.0RC1", f"{a}.{b}.0.rc1"],
        "beta": [f"{a}.{b}.0b2", f"{a}.{b}b2", f"{a}.{b}.0beta2", f"{a}.{b}.0.b2"],
        "alpha": [f"{a}.{b}.0a1", f"{a}.{b}a1", f"{a}.{b}.0alpha1"],
        "post": [f"{a}.{b}.0.post1", f"{a}.{b}.post1", f"{a}.{b}.0-1", f"{a}.{b}.0post1", f"{a}.{b}.0.rev1"],
        "dev": [f"{a}.{b}.dev0", f"{a}.{b}.0.dev0", f"{a}.{b}dev0", f"{a}.{b}.0.dev"],
        "epoch0": [f"0!{a}.{b}", f"0!{a}.{b}.0", f"{a}.{b}", f"{a}.{b}.0", f"v{a}.{b}", f"0{a}.0{b}"],
        "epoch1": [f"1!{a}.{b}", f"1!{a}.{b}.0", f"01!{a}.{b}"],
        "local": [f"{a}.{b}+local", f"{a}.{b}.0+local", f"{a}.{b}+LOCAL", f"{a}.{b}.0+local.0"],
        "micro_rc": [f"{a}.{b}.1rc1", f"{a}.{b}.1.rc1", f"{a}.{b}.1c1"],
    }


_EXOTIC_EQUIV = None


def exotic_equivalents(value):
    """The other spellings of an exotic literal's family (empty list for ordinary literals)."""
    global _EXOTIC_EQUIV
    if _EXOTIC_EQUIV is None:
        _EXOTIC_EQUIV = {}
        for base in VERSION_BASES:
            for fam, forms in exotic_families(base).items():
                if fam == "local":
                    # "+local" and "+local.0" are different versions: only the first three are one version
                    forms = forms[:3]
                for f in forms:
                    _EXOTIC_EQUIV.setdefault(f, [x for x in forms if x != f])
    return _EXOTIC_EQUIV.get(value, [])


def atom(name, op, value, flipped=False):
    return ["atom", name, op, value, bool(flipped)]


def is_atom(n):
    return n[0] == "atom"


def count_atoms(n):
    if is_atom(n):
        return 1
    return sum(count_atoms(c) for c in n[1:])


def walk_atoms(n):
    if is_atom(n):
        yield n
    else:
        for c in n[1:]:
            yield from walk_atoms(c)


# --------------------------------------------------------------------------
# rendering
# --------------------------------------------------------------------------


def render(n, style=None):
    """Render an AST to PEP 508 text. ``style`` = dict(q=quote, sp=bool, par=bool)."""
    style = style or {}
    q = style.get("q", '"')
    wide = style.get("sp", False)
    par = style.get("par", False)

    alias = style.get("alias", False)

    def r(n, parent):
        if is_atom(n):
            _, name, op, value, flipped = n
            if alias:
                name = NAME_ALIASES.get(name, name)
            sp = "  " if wide else " "
            if flipped:
                return f"{q}{value}{q}{sp}{REFLECT[op]}{sp}{name}"
            return f"{name}{sp}{op}{sp}{q}{value}{q}"
        kind = n[0]
        parts = [r(c, kind) for c in n[1:]]
        s = f" {kind} ".join(parts)
        if parent is None:
            return s
        if kind == "or" and parent == "and":
            return f"({s})"
        if kind == parent:
            # nested same kind: parenthesise to keep the association visible
            return f"({s})"
        if par:
            return f"({s})"
        return s

    return r(n, None)


# --------------------------------------------------------------------------
# atom generation
# --------------------------------------------------------------------------


def spell_version(rng, name, base, exact_micro=None, p_long_pv=0.1):
    """One of the spellings of a version literal for variable ``name``."""
    major, minor = base
    if name == "python_version":
        if rng.random() < p_long_pv:
            return f"{major}.{minor}.0"
        opts = [f"{major}.{minor}"] * 6
        if minor == 0:
            opts += [f"{major}"] * 3
        return rng.choice(opts)
    # python_full_version
    opts = [f"{major}.{minor}"] * 3 + [f"{major}.{minor}.0"] * 4
    if minor == 0:
        opts += [f"{major}"] * 2
    micro = exact_micro if exact_micro is not None else rng.choice([1, 2, 5])
    opts += [f"{major}.{minor}.{micro}"] * 2
    return rng.choice(opts)


def gen_release_atom(rng, cfg):
    op = rng.choice([">=", "<", "==", "!=", ">", "<="])
    return atom("platform_release", op, rng.choice(cfg["releases"]), rng.random() < cfg["p_flip"])


def gen_version_atom(rng, cfg):
    if cfg["releases"] and rng.random() < cfg["p_release"]:
        return gen_release_atom(rng, cfg)
    name = rng.choice(cfg["version_vars"])
    base = rng.choice(cfg["bases"])
    roll = rng.random()
    if roll < 0.08 and (name == "python_version" or rng.random() < cfg["p_pfv_lists"]):
        # in / not in lists (python_version mostly; python_full_version in some runs, sharing list texts)
        k = rng.choice(cfg["list_sizes"])
        pool = list(cfg["bases"]) + [b for b in VERSION_BASES if b not in cfg["bases"]][: max(0, k - len(cfg["bases"]))]
        others = rng.sample(pool, k=min(len(pool), k))
        sep = rng.choice([", ", ", ", ",", " , "])
        long_form = rng.random() < cfg["p_long_pv"]
        value = sep.join(f"{a}.{b}.0" if long_form else f"{a}.{b}" for a, b in others)
        return atom(name, rng.choice(["in", "not in"]), value)
    if roll < 0.20:
        # wildcards
        major, minor = base
        value = f"{major}.{minor}.*" if rng.random() < 0.8 else f"{major}.*"
        return atom(name, rng.choice(["==", "=="] + ["!="]), value, rng.random() < cfg["p_flip"])
    op = rng.choice(cfg["order_ops"])
    value = spell_version(rng, name, base, p_long_pv=cfg["p_long_pv"])
    if cfg.get("p_exotic") and rng.random() < cfg["p_exotic"]:
        fams = exotic_families(base)
        fam = rng.choice(cfg["exotic_families"])
        if fam == "local" and op not in ("==", "!="):
            op = rng.choice(["==", "!="])  # PEP 440: local versions only with == / !=
        value = rng.choice(fams[fam][:3] if rng.random() < 0.7 else fams[fam])
        return atom(name, op, value, rng.random() < cfg["p_flip"])
    if op == "~=" and "." not in value:
        # "~= 3" is rejected by packaging: keep as a natural failure at a low rate only
        if rng.random() > cfg["p_invalid"]:
            value += ".0"
    return atom(name, op, value, rng.random() < cfg["p_flip"])


def gen_string_atom(rng, cfg):
    name = rng.choice(cfg["string_vars"])
    pool = STRING_VARS[name]
    op = rng.choice(cfg["string_ops"])
    if op in ("==", "!="):
        return atom(name, op, rng.choice(pool), rng.random() < cfg["p_flip"])
    if rng.random() < 0.7:
        # variable in "a b c"
        k = rng.choice([1, 2, 2, 3])
        value = " ".join(rng.sample(pool, k=min(k, len(pool))))
        return atom(name, op, value)
    # "lit" in variable (literal on the left, substring test)
    lit = rng.choice(pool)
    if rng.random() < 0.5 and len(lit) > 3:
        lit = lit[:3]
    return atom(name, op, lit, True)


def gen_extra_atom(rng, cfg):
    if rng.random() < cfg["p_set_vars"]:
        # lock-file style set-valued variables: "name" in extras / "group" not in dependency_groups
        return atom(rng.choice(["extras", "extras", "dependency_groups"]), rng.choice(["in", "in", "not in"]),
                    rng.choice(cfg["extras"]), True)
    return atom("extra", rng.choice(["==", "==", "==", "!="]), rng.choice(cfg["extras"]),
                rng.random() < cfg["p_flip"] * 0.5)


def gen_atom(rng, cfg):
    kind = rng.choices(["version", "string", "extra"], weights=cfg["kind_weights"])[0]
    if kind == "version":
        return gen_version_atom(rng, cfg)
    if kind == "string":
        return gen_string_atom(rng, cfg)
    return gen_extra_atom(rng, cfg)


def gen_marker(rng, cfg, budget=None):
    """Depth <= 2, <= 3 children per node, <= cfg['max_atoms'] atoms."""
    budget = budget if budget is not None else cfg["max_atoms"]
    roll = rng.random()
    if roll < cfg["p_single"] or budget < 2:
        return gen_atom(rng, cfg)
    kind = "and" if rng.random() < 0.5 else "or"
    other = "or" if kind == "and" else "and"
    n_children = min(rng.choice([2, 2, 2, 3] if budget < 8 else ([2, 3, 3, 4] if budget < 10 else [3, 4, 4, 5])), budget)
    children = []
    left = budget
    for i in range(n_children):
        remaining_children = n_children - i - 1
        avail = left - remaining_children
        if avail >= 2 and rng.random() < cfg["p_nest"]:
            k = min(rng.choice([2, 2, 3]), avail)
            sub = [other] + [gen_atom(rng, cfg) for _ in range(k)]
            children.append(sub)
            left -= k
        else:
            children.append(gen_atom(rng, cfg))
            left -= 1
    return [kind] + children


# --------------------------------------------------------------------------
# respelling rewrites (the alias aggressor)
# --------------------------------------------------------------------------

REWRITES = ("flip", "respell", "permute", "setequal", "dup", "reassoc")


def _parse_release(value):
    try:
        return [int(p) for p in value.strip().split(".")]
    except ValueError:
        return None


def _respell_value(rng, name, value):
    rel = _parse_release(value)
    if rel is None:
        eq = exotic_equivalents(value)
        return rng.choice(eq) if eq else value
    forms = {value}
    # strip trailing zeros / add trailing zeros
    r = list(rel)
    while len(r) > 1 and r[-1] == 0:
        r = r[:-1]
        forms.add(".".join(map(str, r)))
    r = list(rel)
    while len(r) < 3:
        r = r + [0]
        forms.add(".".join(map(str, r)))
    forms.discard(value)
    if not forms:
        return value
    return rng.choice(sorted(forms))


def _set_equal(rng, a):
    """A different atom/sub-tree intended to denote the same set (best effort;
    soundness does not depend on it, see DESIGN.md 3.2)."""
    _, name, op, value, flipped = a
    if name in VERSION_VARS:
        rel = _parse_release(value) if "*" not in value else None
        if op == "==" and value.endswith(".*"):
            head = _parse_release(value[:-2])
            if head and len(head) == 2:
                lo = f"{head[0]}.{head[1]}"
                hi = f"{head[0]}.{head[1] + 1}"
                choice = rng.random()
                if choice < 0.4:
                    return ["and", atom(name, ">=", lo), atom(name, "<", hi)]
                if choice < 0.7:
                    return atom(name, "~=", lo + ".0", flipped)
                if name == "python_version":
                    return atom(name, "==", lo, flipped)
            return a
        if op == "~=" and rel and len(rel) == 3 and rel[2] == 0:
            if rng.random() < 0.5:
                return atom(name, "==", f"{rel[0]}.{rel[1]}.*", flipped)
            return ["and", atom(name, ">=", f"{rel[0]}.{rel[1]}"), atom(name, "<", f"{rel[0]}.{rel[1] + 1}")]
        if name == "python_version" and rel and len(rel) == 2:
            if op == ">":
                return atom(name, ">=", f"{rel[0]}.{rel[1] + 1}", flipped)
            if op == "<=":
                return atom(name, "<", f"{rel[0]}.{rel[1] + 1}", flipped)
            if op == ">=" and rel[1] > 0:
                return atom(name, ">", f"{rel[0]}.{rel[1] - 1}", flipped)
            if op == "<" and rel[1] > 0:
                return atom(name, "<=", f"{rel[0]}.{rel[1] - 1}", flipped)
            if op == "==":
                return atom(name, "==", f"{rel[0]}.{rel[1]}.*", flipped)
        if op in ("in", "not in") and name == "python_version":
            parts = [p.strip() for p in value.split(",")]
            if op == "in":
                kids = [atom(name, "==", p) for p in parts]
                return kids[0] if len(kids) == 1 else ["or"] + kids
            kids = [atom(name, "!=", p) for p in parts]
            return kids[0] if len(kids) == 1 else ["and"] + kids
        if name == "python_version" and rel and len(rel) <= 2 and rng.random() < 0.5:
            # same constraint through the other variable
            return atom("python_full_version", op, value, flipped) if op in (">=", "<") else a
        return a
    if name == "extra":
        swaps = {"Foo_Bar": "foo-bar", "foo-bar": "foo.bar", "foo.bar": "Foo_Bar", "foo": "FOO", "bar": "Bar"}
        if value in swaps and rng.random() < 0.7:
            return atom(name, op, swaps[value], flipped)
        return a
    # string variables
    if op in ("in", "not in") and not flipped:
        parts = value.split()
        if op == "in":
            kids = [atom(name, "==", p) for p in parts]
            return kids[0] if len(kids) == 1 else ["or"] + kids
        kids = [atom(name, "!=", p) for p in parts]
        return kids[0] if len(kids) == 1 else ["and"] + kids
    return a


def respell(rng, n, enabled, p=0.6, depth=0):
    """Semantics-agnostic respelling of an AST; only needs to make key collisions likely."""
    if is_atom(n):
        a = list(n)
        if "setequal" in enabled and rng.random() < p * 0.35 and depth < 2:
            out = _set_equal(rng, a)
            if out is not a:
                return out
        if "flip" in enabled and rng.random() < p and a[2] not in ("in", "not in"):
            a[4] = not a[4]
        elif ("flip" in enabled and a[2] in ("in", "not in") and a[1] in STRING_VARS and " " not in a[3]
              and rng.random() < p * 0.4):
            # `"lit" in var` (substring test) and `var in "lit"` are DIFFERENT markers that the library's
            # equality conflates (the literal side is not compared): hand the twin the other one
            a[4] = not a[4]
        if "respell" in enabled and rng.random() < p and a[1] in VERSION_VARS and "*" not in a[3] and "," not in a[3]:
            a[3] = _respell_value(rng, a[1], a[3])
        elif a[1] not in VERSION_VARS and " " in a[3] and rng.random() < p * 0.3:
            # same literal up to the AMOUNT of white space inside it (a different string, but one that a
            # careless normalisation would conflate)
            a[3] = a[3].replace(" ", rng.choice(["  ", "\t", "   "]), 1) if rng.random() < 0.7 else " ".join(a[3].split())
        elif a[1] in VERSION_VARS and a[2] in ("in", "not in") and rng.random() < p:
            # respell a version list: entries, order, separators; or hand the same text to the other variable
            parts = [x.strip() for x in a[3].split(",")]
            if "respell" in enabled and rng.random() < 0.5:
                parts = [_respell_value(rng, a[1], x) for x in parts]
            if "permute" in enabled and rng.random() < 0.5:
                rng.shuffle(parts)
            if rng.random() < 0.5:
                a[3] = rng.choice([", ", ",", " , "]).join(parts)
            if rng.random() < 0.25:
                a[1] = "python_full_version" if a[1] == "python_version" else "python_version"
        return a
    kind = n[0]
    kids = [respell(rng, c, enabled, p, depth + 1) for c in n[1:]]
    if "permute" in enabled and rng.random() < p:
        rng.shuffle(kids)
    if "dup" in enabled and rng.random() < p * 0.25:
        kids.append(rng.choice(kids))
    if "reassoc" in enabled and len(kids) >= 3 and rng.random() < p * 0.5:
        i = rng.randrange(len(kids) - 1)
        kids[i:i + 2] = [[kind, kids[i], kids[i + 1]]]
    # a set-equal rewrite may have produced a child of the same kind: keep it nested
    return [kind] + kids


# --------------------------------------------------------------------------
# swarm configuration, scripts, schedule, faults
# --------------------------------------------------------------------------

FAULT_KINDS = ("KeyboardInterrupt", "MemoryError", "RecursionError")


def gen_config(rng, fault_class=None):
    """Per-run swarm configuration. ``fault_class``: None = draw, True/False = force."""
    flavour = rng.choices(
        ["mixed", "version", "string", "extras", "pv_pfv", "groups"], weights=[5, 4, 2, 2, 3, 2])[0]
    if flavour == "version":
        kind_weights = [1.0, 0.0, 0.0]
    elif flavour in ("string", "groups"):
        kind_weights = [0.0, 1.0, 0.0]
    elif flavour == "extras":
        kind_weights = [0.3, 0.3, 0.4]
    elif flavour == "pv_pfv":
        kind_weights = [0.85, 0.15, 0.0]
    else:
        kind_weights = [0.55, 0.33, 0.12]
    n_bases = rng.choice([1, 2, 2, 3, 4])
    bases = rng.sample(VERSION_BASES, k=n_bases)
    if rng.random() < 0.5:
        # adjacent bases make merges collapse into ~= / == X.* forms
        b = rng.choice(bases)
        nb = (b[0], b[1] + 1) if b[1] < 11 else (b[0] + 1, 0)
        if nb not in bases:
            bases.append(nb)
    version_vars = list(VERSION_VARS) if flavour != "version" or rng.random() < 0.7 else [rng.choice(VERSION_VARS)]
    string_vars = rng.sample(sorted(STRING_VARS), k=rng.choice([1, 1, 2, 3]))
    string_ops = ["==", "==", "!=", "in", "not in"]
    if rng.random() < 0.4:
        # a run focused on one or two operators makes same-variable groups (== "a" or == "b" …) build up
        string_ops = rng.sample(["==", "!=", "in", "not in"], k=rng.choice([1, 1, 2]))
    order_ops = list(ORDER_OPS)
    if rng.random() < 0.3:
        order_ops = rng.sample(ORDER_OPS, k=rng.choice([2, 3, 4]))
    if flavour == "groups":
        # one variable, one of ==/!=: multi-valued ==/!= groups build up, get widened, narrowed and compared
        # (a second variable at a lower rate keeps compound markers around the groups)
        others = [v for v in sorted(STRING_VARS) if v != string_vars[0]]
        string_vars = [string_vars[0]] * 3 + ([rng.choice(others)] if rng.random() < 0.6 else [])
        string_ops = [rng.choice(["==", "!="])] if rng.random() < 0.7 else ["==", "!="]
    faults_on = (rng.random() < 0.5) if fault_class is None else bool(fault_class)
    fault_kinds = [k for k in FAULT_KINDS if rng.random() < 0.7] or [rng.choice(FAULT_KINDS)]
    rewrites = [w for w in REWRITES if rng.random() < 0.75] or ["flip"]
    roll = rng.random()
    marathon = roll < 0.01
    saturation = 0.01 <= roll < 0.035
    heavy = 0.035 <= roll < 0.05
    cfg = {
        "marathon": marathon,
        "saturation": saturation,
        "heavy": heavy,
        "max_probes": 100 if saturation else 40,
        "flavour": flavour,
        "kind_weights": kind_weights,
        "bases": bases,
        "version_vars": version_vars,
        "string_vars": string_vars,
        "string_ops": string_ops,
        "extras": rng.sample(EXTRA_VALUES, k=rng.choice([2, 3, 4])),
        "releases": rng.sample(RELEASE_VALUES, k=rng.choice([2, 3, 4])) if rng.random() < 0.3 else [],
        "p_release": rng.choice([0.15, 0.4, 1.0]),
        "p_combo": rng.choice([0.35, 0.5, 0.5, 0.7]),
        "p_reparse": rng.choice([0.05, 0.12, 0.12, 0.3]),
        "roundtrip": rng.random() < 0.25,
        "p_chain": rng.choice([0.2, 0.4, 0.4, 0.85]),
        "p_echo": rng.choice([0.0, 0.15, 0.35, 0.6]),
        "p_borrow": rng.choice([0.0, 0.0, 0.15, 0.4]),
        "battery": rng.choice([0, 4, 8]),
        "order_ops": order_ops,
        "p_flip": rng.choice([0.0, 0.15, 0.3, 0.5]),
        "p_long_pv": rng.choice([0.1, 0.1, 0.5]),
        "p_pfv_lists": rng.choice([0.0, 0.3, 1.0]),
        "p_set_vars": rng.choice([0.0, 0.0, 0.3, 0.7]),
        "list_sizes": rng.choice([[1, 2, 2, 3], [1, 2, 2, 3], [3, 4, 5]]),
        "p_invalid": rng.choice([0.0, 0.0, 0.3]),
        "p_single": rng.choice([0.25, 0.4, 0.6]),
        "p_nest": rng.choice([0.0, 0.25, 0.5]),
        "max_atoms": rng.choice([3, 4, 4, 5, 6, 6, 8]),
        "n_victims": rng.choice([1, 1, 1, 2]),
        "n_aggressors": rng.choice([0, 1, 1, 1, 2]),
        "ops_per_client": rng.choice([3, 4, 5, 6, 8, 10, 12]),
        "rewrites": rewrites,
        "p_rewrite": rng.choice([0.3, 0.6, 0.9]),
        "schedule": rng.choice(["aggressor_first", "interleaved", "interleaved", "victim_first"]),
        "faults": faults_on,
        "fault_kinds": fault_kinds,
        "fault_rate": rng.choice([0.15, 0.3, 0.45]) if faults_on else 0.0,
        "p_retry": rng.choice([0.0, 0.5, 1.0, 1.0]),
        "p_scout": rng.choice([0.5, 1.0, 1.0]),
        "p_garbage": rng.choice([0.0, 0.0, 0.05]),
        "p_dropgc": rng.choice([0.0, 0.1, 0.2]),
        "shims": rng.random() < 0.5,
        "style": {"q": rng.choice(['"', '"', "'"]), "sp": rng.random() < 0.15, "par": rng.random() < 0.2},
    }
    # versions beyond X.Y[.Z]: pre/post/dev releases, epochs, local versions, "v" prefix, leading zeros
    cfg["p_exotic"] = rng.choice([0.0, 0.0, 0.0, 0.2, 0.5])
    cfg["exotic_families"] = rng.sample(
        ["rc", "beta", "alpha", "post", "dev", "epoch0", "epoch1", "local", "micro_rc"], k=rng.choice([1, 2, 3]))
    if heavy:
        # lock-file sized markers: a dozen atoms in four or five alternatives, few operations; this is
        # where the normalisation cascades get deep enough for budgets, guards and recursion limits
        cfg["max_atoms"] = rng.choice([10, 12, 14])
        cfg["p_single"] = 0.1
        cfg["p_nest"] = 0.5
        cfg["ops_per_client"] = rng.choice([4, 5, 6])
        cfg["n_victims"] = 1
        cfg["n_aggressors"] = 1
        cfg["battery"] = rng.choice([0, 3])
    if marathon:
        # a long-running process: hundreds of operations over a somewhat wider literal pool, so that
        # size thresholds, evictions and table rebuilds of any memo are reached
        cfg["ops_per_client"] = rng.choice([30, 45, 60])
        cfg["n_victims"] = 2
        cfg["n_aggressors"] = rng.choice([1, 2])
        cfg["p_combo"] = 0.6
        cfg["max_atoms"] = rng.choice([4, 5, 6])
        cfg["p_single"] = 0.25
        extra_bases = [b for b in VERSION_BASES if b not in cfg["bases"]]
        cfg["bases"] = cfg["bases"] + rng.sample(extra_bases, k=min(3, len(extra_bases)))
        cfg["string_vars"] = sorted(set(cfg["string_vars"]) | set(rng.sample(sorted(STRING_VARS), k=3)))
        cfg["fault_rate"] = cfg["fault_rate"] / 3
    return cfg


GARBAGE_TEXTS = [
    'python_version >= ',
    'python_version >> "3.8"',
    'os_name == "nt" and',
    'python_version ~= "3"',
    '(sys_platform == "linux"',
    'nonsense == "1"',
    'python_full_version === "3.8.1"',
    'python_version >= "abc"',
]


def gen_script(rng, cfg):
    """A client's script as local ops: ("parse", ast) | ("text", str) | ("and", i, j) |
    ("or", i, j) | ("reparse", i) | ("drop", i) | ("gc",).  Indices are local op numbers."""
    ops = []
    producers = []  # local indices that yield a slot (may still fail at run time)
    dropped = set()
    n = cfg["ops_per_client"]
    n_seed = 2 if n <= 4 else rng.choice([2, 3])
    for _ in range(n_seed):
        producers.append(len(ops))
        ops.append(["parse", gen_marker(rng, cfg)])
    while len(ops) < n:
        live = [i for i in producers if i not in dropped]
        roll = rng.random()
        base = cfg["p_garbage"] + cfg["p_dropgc"]
        if roll < cfg["p_garbage"]:
            producers.append(len(ops))
            ops.append(["text", rng.choice(GARBAGE_TEXTS)])
        elif roll < cfg["p_garbage"] + cfg["p_dropgc"] and len(live) > 2:
            if rng.random() < 0.6:
                i = rng.choice(live)
                dropped.add(i)
                ops.append(["drop", i])
            else:
                ops.append(["gc"])
        elif roll < base + cfg["p_combo"] and len(live) >= 2:
            i = rng.choice(live)
            # prefer recent results as the other operand so that chains build up
            j = live[-1] if rng.random() < cfg["p_chain"] else rng.choice(live)
            producers.append(len(ops))
            ops.append([rng.choice(["and", "or"]), i, j])
            if cfg["roundtrip"] and rng.random() < 0.6 and len(ops) < n:
                # lock-file round trip: render the result, parse it back, carry on with the re-parsed marker
                producers.append(len(ops))
                ops.append(["reparse", len(ops) - 1])
        elif roll < base + cfg["p_combo"] + cfg["p_reparse"] and live:
            producers.append(len(ops))
            ops.append(["reparse", rng.choice(live)])
        else:
            producers.append(len(ops))
            ops.append(["parse", gen_marker(rng, cfg)])
    return ops


def derive_aggressor(rng, cfg, script):
    """The victim's script pushed through the respelling rewrites."""
    out = []
    for op in script:
        kind = op[0]
        if kind == "parse":
            out.append(["parse", respell(rng, op[1], cfg["rewrites"], cfg["p_rewrite"])])
        elif kind in ("and", "or"):
            i, j = op[1], op[2]
            if "permute" in cfg["rewrites"] and rng.random() < 0.5:
                i, j = j, i
            out.append([kind, i, j])
        else:
            out.append(list(op))
    return out


def _log_uniform(rng, lo, hi):
    import math

    return int(round(math.exp(rng.uniform(math.log(lo), math.log(hi)))))


def _insert_echoes(rng, cfg, steps, n_clients):
    """Cross-client hand-over of rendered text: after a step that combined markers, some OTHER client
    parses the rendered result as plain text (and may combine it with something of its own)."""
    out = []
    pending = []  # (due position, source id, client)
    own = {c: [] for c in range(n_clients)}  # producing step ids per client, in the NEW numbering
    ren = {}
    def emit(st):
        st = dict(st)
        old = st["id"]
        st["id"] = len(out)
        for k in ("a", "b"):
            if k in st and st["op"] != "echo" and not isinstance(st[k], _new):
                st[k] = ren[st[k]]
            elif k in st:
                st[k] = int(st[k])
        if old is not None:
            ren[old] = st["id"]
        out.append(st)
        if st["op"] in ("parse", "and", "or", "reparse", "echo"):
            own[st["c"]].append(st["id"])
        return st["id"]
    dropped = set()
    for pos, st in enumerate(steps):
        emit(st)
        if st["op"] == "drop":
            dropped.add(ren[st["a"]] if st["a"] in ren else None)
        if st["op"] in ("and", "or", "reparse") and rng.random() < cfg["p_echo"]:
            others = [c for c in range(n_clients) if c != st["c"]]
            pending.append((pos + rng.choice([0, 0, 1, 3, 6]), ren[st["id"]], rng.choice(others)))
        due = [p for p in pending if p[0] <= pos]
        pending = [p for p in pending if p[0] > pos]
        for _, src, c in due:
            eid = emit({"id": None, "c": c, "op": "echo", "a": src})
            mine = [i for i in own[c] if i != eid and i not in dropped]
            if mine and rng.random() < 0.6:
                emit({"id": None, "c": c, "op": rng.choice(["and", "or"]), "a": _new(eid), "b": _new(rng.choice(mine))})
    for _, src, c in pending:
        emit({"id": None, "c": c, "op": "echo", "a": src})
    return out


class _new(int):
    """An operand id that is already in the new numbering (emit must not translate it)."""


def saturation_universe(rng, cfg):
    """A tiny closed universe of atoms: every operator x spelling x literal side over one or two
    version bases of one or two variables (or the values of one string variable / extra)."""
    kind = rng.choice(["pv", "pfv", "pv_pfv", "string", "extra", "release", "lists", "ladder"])
    atoms = []
    if kind == "ladder":
        # many distinct versions of one variable; gen_saturation_script walks them in monotone order
        name = rng.choice(VERSION_VARS)
        major = rng.choice([2, 3])
        top = rng.choice([12, 16, 20])
        for minor in range(top):
            v = f"{major}.{minor}" if name == "python_version" or rng.random() < 0.5 else f"{major}.{minor}.{rng.choice([0, 1, 4])}"
            atoms.append(atom(name, ">=", v))
            atoms.append(atom(name, "<", v))
        cfg["ladder"] = rng.choice(["up", "down", "both"])
        return atoms
    if kind == "lists":
        # version lists (in / not in) in several spellings, orders and separators, on one or both variables
        base = rng.choice(VERSION_BASES[:-1])
        vs = [(base[0], base[1] + i) for i in range(3)]
        short = [f"{a}.{b}" for a, b in vs]
        longf = [f"{a}.{b}.0" for a, b in vs]
        names = rng.choice([["python_version"], ["python_full_version"], list(VERSION_VARS)])
        more = [f"{base[0]}.{base[1] + i}" for i in range(3, 5)]
        texts = [", ".join(short), ", ".join(longf), ",".join(reversed(short)), ", ".join(short[:2]), ", ".join(longf[:2]),
                 ", ".join([short[0], longf[1], short[2]]), short[0], ", ".join(short + more[:1]), ", ".join(short + more)]
        for name in names:
            for t in texts:
                atoms.append(atom(name, "in", t))
                atoms.append(atom(name, "not in", t))
            for v in (short[0], longf[1], short[2]):
                for op in (">=", "<", "==", "!=", ">", "<="):
                    atoms.append(atom(name, op, v))
        if len(atoms) > 40:
            atoms = rng.sample(atoms, 40)
        return atoms
    if kind in ("pv", "pfv", "pv_pfv"):
        names = {"pv": ["python_version"], "pfv": ["python_full_version"], "pv_pfv": list(VERSION_VARS)}[kind]
        base = rng.choice(VERSION_BASES)
        bases = [base] if rng.random() < 0.6 else [base, (base[0], base[1] + 1)]
        for name in names:
            for b in bases:
                spellings = {f"{b[0]}.{b[1]}", f"{b[0]}.{b[1]}.0"}
                if b[1] == 0:
                    spellings.add(f"{b[0]}")
                if name == "python_full_version":
                    spellings.add(f"{b[0]}.{b[1]}.{rng.choice([1, 2, 5])}")
                for v in sorted(spellings):
                    for op in ORDER_OPS:
                        if op == "~=" and "." not in v:
                            continue
                        atoms.append(atom(name, op, v, False))
                        atoms.append(atom(name, op, v, True))
                atoms.append(atom(name, "==", f"{b[0]}.{b[1]}.*"))
                atoms.append(atom(name, "!=", f"{b[0]}.{b[1]}.*"))
            if name == "python_version" or rng.random() < 0.5:
                nb = (bases[0][0], bases[0][1] + 1)
                nb2 = (bases[0][0], bases[0][1] + 2)
                x, y, z = f"{bases[0][0]}.{bases[0][1]}", f"{nb[0]}.{nb[1]}", f"{nb2[0]}.{nb2[1]}"
                for lst in (f"{x}, {y}", f"{y},{x}", f"{x}", f"{x}, {y}, {z}", f"{x}.0, {y}.0, {z}.0", f"{z}, {x}, {y}"):
                    atoms.append(atom(name, "in", lst))
                    atoms.append(atom(name, "not in", lst))
    elif kind == "release":
        for v in RELEASE_VALUES[:5]:
            for op in [">=", "<", "==", "!=", ">", "<="]:
                atoms.append(atom("platform_release", op, v, False))
    elif kind == "string":
        name = rng.choice(sorted(STRING_VARS))
        pool = STRING_VARS[name]
        for v in pool:
            for op in ("==", "!="):
                atoms.append(atom(name, op, v, False))
                atoms.append(atom(name, op, v, True))
        for op in ("in", "not in"):
            atoms.append(atom(name, op, " ".join(pool[:2])))
            atoms.append(atom(name, op, " ".join(reversed(pool[:2]))))
            atoms.append(atom(name, op, pool[0][:3], True))
    else:
        for v in EXTRA_VALUES:
            for op in ("==", "!="):
                atoms.append(atom("extra", op, v, False))
                atoms.append(atom("extra", op, v, True))
            for name in ("extras", "dependency_groups"):
                for op in ("in", "not in"):
                    atoms.append(atom(name, op, v, True))
    if len(atoms) > 36:
        atoms = rng.sample(atoms, 36)
    return atoms


def gen_saturation_script(rng, cfg, atoms, n_ops):
    """Pairwise saturation: many (a op b) over the closed universe, in random order, with round trips."""
    ops = []
    where = {}

    def slot(i):
        if i not in where:
            where[i] = len(ops)
            ops.append(["parse", atoms[i]])
        return where[i]

    results = []
    ladder = cfg.get("ladder")
    order = None
    if ladder:
        # (>= v_k) op (< v_top), k walking up or down: each step introduces one new bound between known ones
        n_rungs = len(atoms) // 2
        ks = list(range(n_rungs - 1))
        if ladder == "down" or (ladder == "both" and rng.random() < 0.5):
            ks.reverse()
        order = [(2 * k, 2 * (n_rungs - 1) + 1) for k in ks] + [(2 * k, 2 * k + 3) for k in ks if 2 * k + 3 < len(atoms)]
        n_ops = len(order)
    for step_no in range(n_ops):
        i, j = order[step_no] if order else (rng.randrange(len(atoms)), rng.randrange(len(atoms)))
        roll = rng.random()
        if results and roll < 0.2 and not order:
            a, b = rng.choice(results), slot(j)  # chain on an earlier result
        else:
            a, b = slot(i), slot(j)
        ops.append([rng.choice(["and", "or"]), a, b])
        results.append(len(ops) - 1)
        if rng.random() < 0.12:
            ops.append(["reparse", results[-1]])
            results.append(len(ops) - 1)
    return ops


def gen_scripts(rng, fault_class=None):
    """The schedule-independent part of a program: swarm configuration, client scripts, rendered texts."""
    cfg = gen_config(rng, fault_class)
    scripts = []
    roles = []
    if cfg.get("saturation"):
        atoms = saturation_universe(rng, cfg)
        cfg["universe"] = len(atoms)
        cfg["fault_rate"] = cfg["fault_rate"] / 4
        n_ops = rng.choice([60, 100, 150])
        for _ in range(2):
            scripts.append(gen_saturation_script(rng, cfg, atoms, n_ops))
            roles.append("victim")
        for c, script in enumerate(scripts):
            for op in script:
                if op[0] == "parse":
                    op.append(render(op[1], cfg["style"] if c == 0 else {"q": "'", "sp": False, "par": False}))
        return {"config": cfg, "roles": roles, "scripts": scripts}
    victims = [gen_script(rng, cfg) for _ in range(cfg["n_victims"])]
    for v in victims:
        scripts.append(v)
        roles.append("victim")
    for a in range(cfg["n_aggressors"]):
        scripts.append(derive_aggressor(rng, cfg, victims[a % len(victims)]))
        roles.append("aggressor")
    style = cfg["style"]
    for c, script in enumerate(scripts):
        for op in script:
            if op[0] == "parse":
                # the aggressor renders with its own style half of the time
                stl = style if roles[c] == "victim" or rng.random() < 0.5 else {"q": "'", "sp": rng.random() < 0.3, "par": rng.random() < 0.5,
                                                                                 "alias": rng.random() < 0.2}
                op.append(render(op[1], stl))
    return {"config": cfg, "roles": roles, "scripts": scripts}


SCHEDULES = ("aggressor_first", "interleaved", "interleaved", "victim_first")


def schedule_program(rng, base, variant=False, fault_class=None):
    """One schedule + fault sequence over fixed client scripts -> flat, globally numbered step list.

    ``variant`` True: draw a fresh schedule mode, fault class and shim flag (another history over the
    same scripts; the cold references are shared because cones are per client)."""
    cfg = dict(base["config"])
    roles = base["roles"]
    scripts = base["scripts"]
    if variant:
        cfg["schedule"] = rng.choice(SCHEDULES)
        cfg["faults"] = (rng.random() < 0.5) if fault_class is None else bool(fault_class)
        cfg["fault_rate"] = rng.choice([0.15, 0.3, 0.45]) if cfg["faults"] else 0.0
        if cfg.get("marathon"):
            cfg["fault_rate"] /= 3
        cfg["shims"] = rng.random() < 0.5
        cfg["p_echo"] = rng.choice([0.0, 0.15, 0.35, 0.6])
        cfg["p_borrow"] = rng.choice([0.0, 0.0, 0.15, 0.4])
        cfg["battery"] = rng.choice([0, 4, 8])
    # schedule: which client issues its next op
    cursors = [0] * len(scripts)
    order = []
    mode = cfg["schedule"]
    if mode == "interleaved":
        while True:
            ready = [c for c in range(len(scripts)) if cursors[c] < len(scripts[c])]
            if not ready:
                break
            c = rng.choice(ready)
            order.append(c)
            cursors[c] += 1
    else:
        first = "aggressor" if mode == "aggressor_first" else "victim"
        seq = [c for c, r in enumerate(roles) if r == first] + [c for c, r in enumerate(roles) if r != first]
        if variant:
            # also vary which victim / which aggressor goes first
            head = [c for c in seq if roles[c] == first]
            tail = [c for c in seq if roles[c] != first]
            rng.shuffle(head)
            rng.shuffle(tail)
            seq = head + tail
        for c in seq:
            order.extend([c] * len(scripts[c]))
    cursors = [0] * len(scripts)
    local2global = [dict() for _ in scripts]
    steps = []
    for c in order:
        li = cursors[c]
        cursors[c] += 1
        op = scripts[c][li]
        sid = len(steps)
        local2global[c][li] = sid
        kind = op[0]
        st = {"id": sid, "c": c, "op": kind}
        if kind == "parse":
            st["ast"] = op[1]
            st["text"] = op[2]
        elif kind == "text":
            st["op"] = "parse"
            st["text"] = op[1]
        elif kind in ("and", "or"):
            st["a"] = local2global[c][op[1]]
            st["b"] = local2global[c][op[2]]
        elif kind in ("reparse", "drop"):
            st["a"] = local2global[c][op[1]]
        steps.append(st)
    if cfg.get("p_borrow") and len(scripts) > 1:
        # components hand marker OBJECTS to each other: an &/| takes its second operand from another
        # client's results - half of the time the differently spelled TWIN (same position in the twin
        # client's script) of something in the first operand's own ancestry
        n_vict = sum(1 for r in roles if r == "victim")
        root = [c if roles[c] == "victim" else (c - n_vict) % n_vict for c in range(len(scripts))]
        g2l = {}
        for c, m in enumerate(local2global):
            for li, gid in m.items():
                g2l[gid] = (c, li)
        by_gid = {st["id"]: st for st in steps}

        def local_cone(gid):
            seen, stack = set(), [gid]
            while stack:
                k = stack.pop()
                if k in seen:
                    continue
                seen.add(k)
                stx = by_gid[k]
                for key in ("a", "b"):
                    if key in stx and stx["op"] in ("and", "or", "reparse"):
                        stack.append(stx[key])
            return sorted(seen)

        produced = []  # (id, client) of producing steps so far
        gone = set()
        for st in steps:
            if st["op"] == "drop":
                gone.add(st["a"])
            if st["op"] in ("and", "or") and rng.random() < cfg["p_borrow"]:
                c = st["c"]
                twins = [d for d in range(len(scripts)) if d != c and root[d] == root[c]]
                cands = []
                if twins and rng.random() < 0.5:
                    for k in local_cone(st["a"]):
                        kc, kli = g2l.get(k, (None, None))
                        if kc != c:
                            continue
                        for d in twins:
                            t = local2global[d].get(kli)
                            if t is not None and t < st["id"] and t not in gone and by_gid[t]["op"] in ("parse", "and", "or", "reparse"):
                                cands.append(t)
                if not cands:
                    foreign = [i for i, pc in produced if pc != c and i not in gone]
                    cands = foreign[-6:] if (foreign and rng.random() < 0.6) else foreign
                if cands:
                    st["b"] = rng.choice(cands)
                    st["borrowed"] = True
            if st["op"] in ("parse", "and", "or", "reparse"):
                produced.append((st["id"], st["c"]))
    roles = list(roles)
    if cfg.get("battery") and len(steps) >= 4:
        # a last component that combines results of all the others once the process state is richest
        bc = len(scripts)
        roles.append("battery")
        gone = {st["a"] for st in steps if st["op"] == "drop"}
        pool = [st["id"] for st in steps if st["op"] in ("parse", "and", "or", "reparse") and st["id"] not in gone]
        mine = []
        for _ in range(cfg["battery"]):
            if len(pool) < 2:
                break
            a = rng.choice(mine) if (mine and rng.random() < 0.3) else rng.choice(pool)
            b = rng.choice(pool[-8:]) if rng.random() < 0.4 else rng.choice(pool)
            sid = len(steps)
            steps.append({"id": sid, "c": bc, "op": rng.choice(["and", "or"]), "a": a, "b": b})
            mine.append(sid)
            if rng.random() < 0.2:
                steps.append({"id": sid + 1, "c": bc, "op": "reparse", "a": sid})
                mine.append(sid + 1)
    if cfg["p_echo"] and len(scripts) > 1:
        steps = _insert_echoes(rng, cfg, steps, len(roles))
    if cfg["faults"]:
        for st in steps:
            if st["op"] in ("parse", "and", "or", "reparse", "echo"):
                rate = cfg["fault_rate"] * (1.5 if st["op"] in ("or", "and") else 1.0)
                if rng.random() < rate:
                    st["fault"] = {"exc": rng.choice(cfg["fault_kinds"]), "retry": rng.random() < cfg["p_retry"]}
                    if rng.random() < cfg["p_scout"]:
                        # placed inside the operation, relative to its length in the state it meets
                        st["fault"]["frac"] = round(rng.random(), 4)
                    else:
                        st["fault"]["at"] = _log_uniform(rng, 1, 600)
    return {"config": cfg, "roles": roles, "steps": steps}


def gen_program(rng, fault_class=None):
    """Return {"config":…, "roles":…, "steps":[…]}: scripts and their first schedule from one PRNG."""
    return schedule_program(rng, gen_scripts(rng, fault_class))


VARIANTS = 3  # schedules explored per set of client scripts


def program_for_run(verif_seed, shard, run, fault_class=None):
    """Run r of a shard = schedule (r mod VARIANTS) of script set (r div VARIANTS).
    Returns (program, envs, group id). Everything derives from run_seed(...)."""
    group = run - run % VARIANTS
    rng = random.Random(run_seed(verif_seed, shard, group))
    base = gen_scripts(rng, fault_class)
    first = schedule_program(rng, base)
    envs = make_envs(first["steps"])
    if run == group:
        return first, envs, group
    vr = random.Random(run_seed(verif_seed, shard, run))
    return schedule_program(vr, base, variant=True, fault_class=fault_class), envs, group


# --------------------------------------------------------------------------
# environment grid (pure function of the program's texts)
# --------------------------------------------------------------------------


import re as _re


def _version_points(values):
    pts = set()
    for value in values:
        for part in value.replace("*", "0").split(","):
            rel = _parse_release(part.strip().rstrip("."))
            if not rel:
                # exotic literal: the release segment after an optional epoch / "v"
                m = _re.match(r"\s*(?:\d+!)?v?(\d+(?:\.\d+)*)", part)
                rel = _parse_release(m.group(1)) if m else None
            if not rel:
                continue
            rel = (rel + [0, 0, 0])[:3]
            major, minor, micro = rel
            pts.add((major, minor, micro))
            pts.add((major, minor, micro + 1))
            if micro > 0:
                pts.add((major, minor, micro - 1))
            elif minor > 0:
                pts.add((major, minor - 1, 99))
            else:
                pts.add((max(major - 1, 0), 99, 99))
            pts.add((major, minor + 1, 0))
            pts.add((major, minor, 0))
    return sorted(pts)


def literals_of_steps(steps):
    """Collect (name -> [values]) from the ASTs; garbage texts contribute nothing."""
    out = {}
    for st in steps:
        ast = st.get("ast")
        if ast is None:
            continue
        for a in walk_atoms(ast):
            out.setdefault(a[1], [])
            if a[3] not in out[a[1]]:
                out[a[1]].append(a[3])
    return out


def make_envs(steps, cap=24):
    """Deterministic environment grid derived from the literals of the program."""
    lits = literals_of_steps(steps)
    vvalues = lits.get("python_version", []) + lits.get("python_full_version", [])
    vpts = _version_points(vvalues) or [(3, 8, 0), (3, 9, 1)]
    # always include a few anchors
    for p in [(2, 7, 18), (3, 8, 10), (3, 12, 0)]:
        if p not in vpts:
            vpts.append(p)
    strings = {}
    for name, pool in STRING_VARS.items():
        vals = []
        for v in lits.get(name, []):
            for piece in [v] + v.split():
                for cand in (piece, piece + "x", piece[:-1] if len(piece) > 1 else piece):
                    if cand not in vals:
                        vals.append(cand)
        if not vals:
            vals = [pool[0]]
        vals.append("zzz")
        strings[name] = vals
    extras = [""]
    for v in lits.get("extra", []) + lits.get("extras", []) + lits.get("dependency_groups", []):
        for cand in (v, v.lower().replace("_", "-").replace(".", "-")):
            if cand not in extras:
                extras.append(cand)
    extras.append("unrelated")
    releases = []
    for v in lits.get("platform_release", []):
        if v not in releases:
            releases.append(v)
    releases += [r for r in ("5.10.0", "4.19.0", "6.5.0-generic") if r not in releases]
    n = min(cap, max(len(vpts), 12))
    if len(vpts) > n:
        # keep an evenly spread subset, deterministic
        stride = len(vpts) / n
        vpts = [vpts[int(i * stride)] for i in range(n)]
    exotic = any(_re.search(r"[A-Za-z!+-]", v) for v in vvalues)
    envs = []
    for i in range(n):
        major, minor, micro = vpts[i % len(vpts)]
        env = {
            "python_full_version": f"{major}.{minor}.{micro}",
            "python_version": f"{major}.{minor}",
            "platform_release": releases[(i * 5 + 1) % len(releases)],
            "platform_version": "#1 SMP",
        }
        if i % 6 == 5:
            # a pre-release interpreter of that version (3.11.0rc1 sorts before 3.11.0)
            env["python_full_version"] = f"{major}.{minor}.{micro}" + ("rc1" if i % 12 == 5 else "b2")
        elif exotic and i % 2 == 1:
            # programs with pre/post/dev/local literals: interpreters that sit between those versions
            env["python_full_version"] = f"{major}.{minor}.{micro}" + ("rc1", "a1", "rc2", "+local", "b2", ".dev0")[(i // 2) % 6]
        for k, (name, vals) in enumerate(sorted(strings.items())):
            env[name] = vals[(i * (k + 2) + k) % len(vals)]
        env["extra"] = extras[(i * 3) % len(extras)]
        groups = [e for e in extras if e]
        env["extras"] = sorted({groups[(i + j + i // 4) % len(groups)] for j in range(i % 3)}) if groups else []
        env["dependency_groups"] = sorted({groups[(i * 2 + j + i // 3) % len(groups)] for j in range((i + 1) % 3)}) if groups else []
        env["__sets__"] = ["extras", "dependency_groups"]
        envs.append(env)
    # one set-valued extra environment (dep_logic's batch form)
    if len(extras) > 2:
        env = dict(envs[0])
        env["extra"] = sorted(extras[1:3])
        env["__extra_set__"] = True
        envs.append(env)
    return envs


def make_envs_from_texts(texts, cap=24):
    """Environment grid for hand-written histories (no ASTs): scrape quoted literals."""
    import re

    steps = []
    for text in texts:
        for m in re.finditer(r"""(?:(\w+)\s*(?:[<>=!~]=?|in|not\s+in)\s*["']([^"']*)["'])|(?:["']([^"']*)["']\s*(?:[<>=!~]=?|in|not\s+in)\s*(\w+))""", text):
            name, value = (m.group(1), m.group(2)) if m.group(1) else (m.group(4), m.group(3))
            steps.append({"ast": atom(name, "==", value)})
    return make_envs(steps, cap)


def run_seed(verif_seed, shard, run):
    """One integer decides everything about a run."""
    import hashlib

    h = hashlib.sha256(f"C10/{verif_seed}/{shard}/{run}".encode()).digest()
    return int.from_bytes(h[:8], "big")


def shard_hash_seed(verif_seed, shard):
    import hashlib

    h = hashlib.sha256(f"C10-hashseed/{verif_seed}/{shard}".encode()).digest()
    return int.from_bytes(h[:4], "big") % 4294967295 + 1  # 1..4294967295 (0 disables randomisation; avoid)


if __name__ == "__main__":
    import json
    import sys

    seed = int(sys.argv[1]) if len(sys.argv) > 1 else 1
    prog = gen_program(random.Random(seed))
    print(json.dumps(prog["config"]))
    for st in prog["steps"]:
        print({k: v for k, v in st.items() if k != "ast"})
    print(len(make_envs(prog["steps"])), "envs")
