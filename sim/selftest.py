"""Self-tests of the simulation: oracle validation and sensitivity (planted defects).

Runs in the launcher process (which never imports dep_logic); all library code runs in
fresh sub-processes.
"""

from __future__ import annotations

import json
import os
import random
import shutil
import subprocess
import tempfile

from sim import gen


def _run(cmd, env, timeout):
    p = subprocess.run(cmd, env=env, capture_output=True, text=True, timeout=timeout)
    lines = [ln for ln in p.stdout.strip().splitlines() if ln.strip()]
    if not lines:
        raise RuntimeError(f"no output rc={p.returncode}: {p.stderr[-500:]}")
    return json.loads(lines[-1])


def oracle_validation(src, seed, n_probes, shard_env, py, shard_main):
    """Fork oracle == real fresh interpreter?  For sampled probes, execute the cone program
    (a) in a fork of a pristine parent (inside a shard process, via --replay-like path) and
    (b) in a brand-new interpreter (--cold-exec), same PYTHONHASHSEED; the records must match."""
    out = {"probes": 0, "mismatches": 0, "errors": [], "samples": []}
    rng = random.Random(f"oracle/{seed}")
    tmpdir = tempfile.mkdtemp(prefix="c10-oracle-")
    try:
        run = 0
        while out["probes"] < n_probes and run < n_probes * 4:
            run += 1
            prog, envs, _ = gen.program_for_run(seed, 9000, run, False)
            steps = prog["steps"]
            producing = [s["id"] for s in steps if s["op"] in ("and", "or", "reparse")] or [steps[-1]["id"]]
            sid = rng.choice(producing)
            hs = gen.shard_hash_seed(seed, 9000 + run % 7)
            path = os.path.join(tmpdir, f"p{run}.json")
            with open(path, "w") as f:
                json.dump({"steps": steps, "envs": envs, "sid": sid, "fuel": 60000}, f)
            try:
                res = _run([py, "-B", shard_main, "--oracle-pair", path], shard_env(src, hs), 600)
            except Exception as e:  # noqa: BLE001
                out["errors"].append(f"run {run}: {type(e).__name__}: {e}")
                continue
            if res.get("skip"):
                continue
            out["probes"] += 1
            if res["fork"] != res["fresh"]:
                out["mismatches"] += 1
                if len(out["samples"]) < 3:
                    out["samples"].append({"run": run, "sid": sid, "fork": res["fork"], "fresh": res["fresh"]})
    finally:
        shutil.rmtree(tmpdir, ignore_errors=True)
    return out


def sensitivity(src, seed, mini_search, shards=16, runs=150, only=None):
    """Planted defects: copy the source tree outside /repo and /verif, apply one mutant, run a small
    seeded search against the copy. Kills/total go into the evidence; the exit code is not affected."""
    from sim import mutants

    out = {"mutants": [], "errors": [], "summary": {}}
    killed = expected = silent_ok = silent_total = 0
    for m in mutants.MUTANTS:
        if only and m["name"] not in only:
            continue
        tmp = tempfile.mkdtemp(prefix="c10-mutant-")
        try:
            copy = os.path.join(tmp, "src")
            shutil.copytree(src, copy, ignore=shutil.ignore_patterns("__pycache__", "*.pyc"))
            why_not = mutants.apply(m, copy)
            rec = {"name": m["name"], "expect": m["expect"], "why": m["why"]}
            if why_not:
                rec["skipped"] = why_not
                out["mutants"].append(rec)
                continue
            res = mini_search(copy, seed + 7919, shards, m.get("runs", runs))
            rec.update({"runs": res["runs"], "probes": res["probes"], "diverging_runs": res["diverging_runs"],
                        "classes": res["diverge"], "fatal": res["fatal"][:2]})
            if res["fatal"]:
                # a mutant that cannot even be imported is reported, not counted
                rec["skipped"] = "mutant failed to run"
            elif m["expect"] == "kill":
                expected += 1
                killed += 1 if res["diverging_runs"] else 0
            elif m["expect"] == "silent":
                silent_total += 1
                silent_ok += 0 if res["diverging_runs"] else 1
            out["mutants"].append(rec)
        finally:
            shutil.rmtree(tmp, ignore_errors=True)
    out["summary"] = {"killed": killed, "expected_kills": expected, "silent_ok": silent_ok, "silent_total": silent_total,
                      "budget_runs_per_mutant": shards * runs, "note": "a mutant may carry its own larger budget ('runs' per shard)"}
    return out
