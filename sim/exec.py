"""The one executor used by warm and cold children.

Runs a flat step list against the real dep_logic, with

* a logical clock: every entry into a function whose code lives under ``dep_logic/``
  while a client operation is in flight (``sys.monitoring`` PY_START);
* deterministic fuel per operation (clock based, never wall clock);
* one-shot injected aborts raised from the clock callback;
* observation of every result: rendered text, is_empty/is_any, truth vector.

Only this module (and sim/shim.py) touch dep_logic; they are imported by the pristine
parent but nothing in them runs library code at import time.
"""

from __future__ import annotations

import gc
import hashlib
import sys

TOOL_ID = 3  # sys.monitoring.OPTIMIZER_ID slot is 5, PROFILER 2, COVERAGE 1, DEBUGGER 0; 3 is free


class FuelExhausted(BaseException):
    """Raised from the clock callback when an operation exceeds its fuel."""


class _Clock:
    __slots__ = ("now", "armed", "limit", "fault_at", "fault_exc", "fired", "known", "enabled", "entered", "site")

    def __init__(self):
        self.now = 0  # logical time: dep_logic function entries during client operations
        self.armed = False  # a client operation is in flight
        self.limit = 0  # absolute clock value at which fuel runs out
        self.fault_at = 0  # absolute clock value at which the injected fault fires (0 = none)
        self.fault_exc = None
        self.fired = False
        self.known = {}
        self.enabled = False
        self.entered = {}  # code object -> entries while a client operation was in flight
        self.site = None  # qualified name of the function at whose entry the last fault fired


CLOCK = _Clock()

_EXC = {
    "KeyboardInterrupt": KeyboardInterrupt,
    "MemoryError": MemoryError,
    "RecursionError": RecursionError,
}


def _is_dep_logic_code(code):
    fn = code.co_filename
    return "/dep_logic/" in fn or "\\dep_logic\\" in fn


def _on_py_start(code, offset):
    c = CLOCK
    k = c.known.get(code)
    if k is None:
        k = c.known[code] = _is_dep_logic_code(code)
    if not k:
        return sys.monitoring.DISABLE
    if not c.armed:
        return None
    c.now += 1
    c.entered[code] = c.entered.get(code, 0) + 1
    if c.fault_at and c.now >= c.fault_at:
        c.site = code.co_qualname
        exc = c.fault_exc
        c.fault_at = 0
        c.fault_exc = None
        c.fired = True
        raise exc("injected by simulator at logical step %d" % c.now)
    if c.now >= c.limit:
        c.limit = 1 << 62  # one shot
        raise FuelExhausted()
    return None


def clock_install():
    mon = sys.monitoring
    if CLOCK.enabled:
        return
    mon.use_tool_id(TOOL_ID, "verif-c10-clock")
    mon.register_callback(TOOL_ID, mon.events.PY_START, _on_py_start)
    mon.set_events(TOOL_ID, mon.events.PY_START)
    CLOCK.enabled = True


def entered_summary():
    out = {}
    for code, n in CLOCK.entered.items():
        mod = code.co_filename.rsplit("/dep_logic/", 1)[-1].removesuffix(".py").replace("/", ".")
        key = f"{mod}:{code.co_qualname}"
        out[key] = out.get(key, 0) + n
    return out


def clock_uninstall():
    mon = sys.monitoring
    if not CLOCK.enabled:
        return
    mon.set_events(TOOL_ID, 0)
    mon.register_callback(TOOL_ID, mon.events.PY_START, None)
    mon.free_tool_id(TOOL_ID)
    CLOCK.enabled = False


# ---------------------------------------------------------------------------
# observation
# ---------------------------------------------------------------------------


def prepare_envs(envs):
    out = []
    for env in envs:
        e = dict(env)
        if e.pop("__extra_set__", False):
            e["extra"] = set(e["extra"])
        for key in e.pop("__sets__", []):
            e[key] = set(e[key])
        out.append(e)
    return out


def observe(m, envs):
    """(text, is_empty, is_any, truth vector). Exceptions become symbols."""
    try:
        text = str(m)
    except Exception as e:  # noqa: BLE001 - a failing str() is an observable
        text = "<str raised %s>" % type(e).__name__
    try:
        flags = [bool(m.is_empty()), bool(m.is_any())]
    except Exception as e:  # noqa: BLE001
        flags = ["<%s>" % type(e).__name__]
    tv = []
    for env in envs:
        try:
            tv.append("1" if m.evaluate(env) else "0")
        except Exception as e:  # noqa: BLE001
            tv.append("<%s>" % type(e).__name__)
    return {"text": text, "flags": flags, "tv": "".join(tv)}


def obs_digest(rec):
    return hashlib.sha256(repr(sorted(rec.items())).encode()).hexdigest()[:16]


# ---------------------------------------------------------------------------
# running a program
# ---------------------------------------------------------------------------


def _do(step, slots):
    from dep_logic.markers import parse_marker

    op = step["op"]
    if op == "parse":
        return parse_marker(step["text"])
    if op == "and":
        return slots[step["a"]] & slots[step["b"]]
    if op == "or":
        return slots[step["a"]] | slots[step["b"]]
    if op == "reparse":
        return parse_marker(str(slots[step["a"]]))
    if op == "echo":
        # another party parses, as plain text, what the library rendered earlier (lock-file hand-over):
        # the text was captured unarmed by run_steps; for the oracle this is parse(<that literal text>)
        return parse_marker(step["_text"])
    raise AssertionError(op)


def scout_length(step, slots, fuel):
    """Logical length of ``step`` if it ran fault-free from the current state (grandchild fork)."""
    import os

    r, w = os.pipe()
    pid = os.fork()
    if pid == 0:
        try:
            os.close(r)
            c = CLOCK
            start = c.now
            c.fault_at = 0
            c.limit = c.now + fuel
            c.armed = True
            try:
                _do(step, slots)
            except BaseException:  # noqa: BLE001
                pass
            c.armed = False
            os.write(w, str(c.now - start).encode())
        finally:
            os._exit(0)
    os.close(w)
    data = b""
    while True:
        chunk = os.read(r, 64)
        if not chunk:
            break
        data += chunk
    os.close(r)
    os.waitpid(pid, 0)
    try:
        return int(data)
    except ValueError:
        return 0


def run_steps(steps, envs, *, faults, fuel, use_clock=True, observe_ids=None, shim=None,
              late_observe=False, clock_marks=False):
    """Execute ``steps`` in order. Returns a list of records, one per step.

    record = {"id", "status", "obs"?, "exc"?, "clock", "fault"?, "attempts"}
      status: ok | raised | aborted | fuel | skipped | noop
    ``faults`` False = ignore fault annotations (cold run).
    ``observe_ids`` None = observe every producing step, else only those ids.
    """
    envs = prepare_envs(envs)
    if use_clock:
        clock_install()
    c = CLOCK
    slots = {}
    records = []
    for step in steps:
        sid = step["id"]
        op = step["op"]
        rec = {"id": sid, "status": "ok", "attempts": 0, "clock0": c.now}
        records.append(rec)
        if op == "gc":
            gc.collect()
            rec["status"] = "noop"
            rec["clock"] = c.now
            continue
        if op == "drop":
            slots.pop(step["a"], None)
            rec["status"] = "noop"
            rec["clock"] = c.now
            continue
        need = [step[k] for k in ("a", "b") if k in step]
        if any(n not in slots for n in need):
            rec["status"] = "skipped"
            rec["clock"] = c.now
            continue
        if op == "echo":
            step = dict(step)
            try:
                step["_text"] = str(slots[step["a"]])
            except Exception as e:  # noqa: BLE001
                step["_text"] = "<str raised %s>" % type(e).__name__
            rec["text"] = step["_text"]
        fault = step.get("fault") if faults else None
        if fault and "at" not in fault:
            # placement relative to the operation's own length in THIS state: a scout fork
            # runs the operation fault-free from the current state and reports its length
            length = scout_length(step, slots, fuel)
            fault = dict(fault)
            fault["at"] = max(1, int(length * float(fault["frac"])) if length else 1)
            fault["scouted_length"] = length
        attempts = 2 if (fault and fault.get("retry")) else 1
        result = None
        for attempt in range(attempts):
            rec["attempts"] = attempt + 1
            c.fired = False
            if fault and attempt == 0:
                c.fault_at = c.now + int(fault["at"])
                c.fault_exc = _EXC[fault["exc"]]
                rec["fault"] = {"exc": fault["exc"], "at": int(fault["at"]), "fired": False}
                if "scouted_length" in fault:
                    rec["fault"]["scouted_length"] = fault["scouted_length"]
            else:
                c.fault_at = 0
                c.fault_exc = None
            c.limit = c.now + fuel
            if shim is not None:
                shim.begin_op(sid, attempt)
            status = "ok"
            try:
                c.armed = True
                try:
                    result = _do(step, slots)
                finally:
                    c.armed = False
                    c.fault_at = 0
                    c.fault_exc = None
            except FuelExhausted:
                status = "fuel"
            except BaseException as e:  # noqa: BLE001 - every outcome of the call is an observable
                if c.fired:
                    status = "aborted"
                    rec["fault"]["fired"] = True
                    rec["fault"]["clock"] = c.now
                    rec["fault"]["site"] = c.site
                else:
                    status = "raised"
                    rec["exc"] = type(e).__name__
            finally:
                if shim is not None:
                    shim.end_op(sid, attempt, status)
            rec["status"] = status
            if c.fired and "fault" in rec:
                # fired but the call returned anyway (something swallowed it): still a result
                rec["fault"]["fired"] = True
            if status != "aborted":
                break
        rec["clock"] = c.now
        if rec["status"] == "ok":
            slots[sid] = result
            if observe_ids is None or sid in observe_ids:
                rec["obs"] = observe(result, envs)
        result = None
    if late_observe:
        # diagnostic only (never a verdict): has an earlier result drifted since it was returned?
        for rec in records:
            if rec["status"] == "ok" and rec["id"] in slots and "obs" in rec:
                late = observe(slots[rec["id"]], envs)
                if late != rec["obs"]:
                    rec["late_drift"] = late
    return records


def cone_of(steps_by_id, sid):
    """Transitive operand closure of step ``sid`` (ids in program order, sid last)."""
    need = set()
    stack = [sid]
    while stack:
        k = stack.pop()
        if k in need:
            continue
        need.add(k)
        st = steps_by_id[k]
        for key in ("a", "b"):
            if key in st and st["op"] in ("and", "or", "reparse"):
                stack.append(st[key])
    return sorted(need)


def concretise(steps, records):
    """After the warm run: every echo step whose text is known becomes a plain parse of that literal
    text (so cones, cold programs, minimisation and replay files only ever see parse/and/or/reparse)."""
    texts = {r["id"]: r["text"] for r in records if "text" in r}
    out = []
    for st in steps:
        if st["op"] == "echo" and st["id"] in texts:
            st = {k: v for k, v in st.items() if k != "a"}
            st["op"] = "parse"
            st["text"] = texts[st["id"]]
            st["echo"] = True
        out.append(st)
    return out


def cold_program(steps_by_id, sid):
    """The cone of ``sid`` as a fault-free program."""
    out = []
    for k in cone_of(steps_by_id, sid):
        st = {kk: vv for kk, vv in steps_by_id[k].items() if kk not in ("fault", "ast", "c")}
        out.append(st)
    return out
