"""Planted defects for the sensitivity self-test (DESIGN.md 3.9).

Each mutant is a list of (relative file, old text, new text) replacements applied to a
scratch COPY of the source tree (never to /repo). ``expect``:
  "kill"    the simulation is expected to report a divergence within the budget
  "silent"  behaviour-preserving change: any divergence would be a false alarm
  "blind"   measured blind spot, reported but nothing is expected
If a pattern no longer matches (the code was refactored) the mutant is skipped and
reported as such; that is not an error.
"""

MUTANTS = [
    {
        "name": "merge-wrapper-returns-cached-operand",
        "expect": "kill",
        "why": "reverts the first repair: a memo hit hands back the equal operand of an earlier, differently written call",
        "edits": [("dep_logic/markers/single.py",
                   "    if merged == marker1:\n        return marker1\n    if merged == marker2:\n        return marker2\n    return merged\n",
                   "    return merged\n")],
    },
    {
        "name": "cnf-dnf-keyed-by-equality-only",
        "expect": "kill",
        "why": "reverts the first repair for cnf/dnf: the text is no longer part of the memo key",
        "edits": [("dep_logic/utils.py", "    return _cnf(marker, str(marker))", "    return _cnf(marker, \"\")"),
                  ("dep_logic/utils.py", "    return _dnf(marker, str(marker))", "    return _dnf(marker, \"\")")],
    },
    {
        "name": "from-specifier-pads-and-attaches-prepadding-specifier",
        "expect": "kill",
        "runs": 600,
        "why": "reverts the second repair: '~='/wildcard versions are zero-padded again and the atom carries the pre-padding specifier, which disagrees with (or is spelled differently from) its own text",
        "edits": [("dep_logic/markers/single.py",
                   "                and pad_zeros\n",
                   "                and True\n"),
                  ("dep_logic/markers/single.py",
                   "            return MarkerExpression(name, pkg_spec.operator, pkg_version)\n",
                   "            return MarkerExpression(\n                name, pkg_spec.operator, pkg_version, _specifier=specifier\n            )\n")],
    },
    {
        "name": "from-specifier-memoised-by-specifier-equality",
        "expect": "kill",
        "why": "new memo keyed by (name, specifier): specifier equality ignores the spelling of Version bounds, the result's text does not",
        "edits": [("dep_logic/markers/single.py",
                   "    @classmethod\n    def from_specifier(cls, name: str, specifier: BaseSpecifier) -> BaseMarker | None:\n",
                   "    @classmethod\n    @functools.lru_cache(maxsize=None)\n    def from_specifier(cls, name: str, specifier: BaseSpecifier) -> BaseMarker | None:\n")],
    },
    {
        "name": "python-version-merge-mutates-shared-operand",
        "expect": "kill",
        "why": "in-place mutation of an object shared through parse_marker's cache: the normalised specifier is stored on the python_version operand",
        "edits": [("dep_logic/markers/single.py",
                   "    normalized_specifier = _normalize_python_version_specifier(version_marker)\n",
                   "    normalized_specifier = _normalize_python_version_specifier(version_marker)\n    version_marker._specifier = normalized_specifier\n")],
    },
    {
        "name": "union-reentrancy-counter-not-restored-on-exception",
        "expect": "kill",
        "why": "a depth counter guards against nested normalisation but is not restored when an exception passes through: only an aborted operation leaves it behind",
        "edits": [("dep_logic/utils.py",
                   "    conjunction = cnf(unnormalized)\n    if not isinstance(conjunction, MultiMarker):\n        return conjunction\n",
                   "    global _union_depth\n    _union_depth += 1\n    if _union_depth > 1:\n        _union_depth -= 1\n        return unnormalized\n"
                   "    conjunction = cnf(unnormalized)\n    _union_depth -= 1\n    if not isinstance(conjunction, MultiMarker):\n        return conjunction\n"),
                  ("dep_logic/utils.py", "def intersection(*markers: BaseMarker) -> BaseMarker:", "_union_depth = 0\n\n\ndef intersection(*markers: BaseMarker) -> BaseMarker:")],
    },
    {
        "name": "parse-marker-cache-keyed-by-normalised-text",
        "expect": "kill",
        "why": "parse cache keyed by whitespace/quote-normalised text: differently written equal texts share the first one's object (and its literal-side spelling is NOT normalised)",
        "edits": [("dep_logic/markers/__init__.py",
                   "@functools.lru_cache(maxsize=None)\ndef parse_marker(marker: str) -> BaseMarker:\n",
                   "def parse_marker(marker: str) -> BaseMarker:\n    key = frozenset(marker.replace(\"'\", '\"').replace('(', ' ').replace(')', ' ').split())\n    if key not in _parsed:\n        _parsed[key] = _parse_marker(marker)\n    return _parsed[key]\n\n\n_parsed: dict = {}\n\n\ndef _parse_marker(marker: str) -> BaseMarker:\n")],
    },
    {
        "name": "multimarker-of-memo-keyed-by-id",
        "expect": "blind",
        "why": "memo keyed by id() of the operand tuple: a stale hit needs address reuse after the operands died; measured blind spot",
        "edits": [("dep_logic/markers/multi.py",
                   "        new_markers = flatten_items(markers, MultiMarker)\n        old_markers: list[BaseMarker] = []\n",
                   "        _key = tuple(id(m) for m in markers)\n        if _key in _of_memo:\n            return _of_memo[_key]\n        _res = cls._of(*markers)\n        _of_memo[_key] = _res\n        return _res\n\n    @classmethod\n    def _of(cls, *markers: BaseMarker) -> BaseMarker:\n        from dep_logic.markers.union import MarkerUnion\n\n        new_markers = flatten_items(markers, MultiMarker)\n        old_markers: list[BaseMarker] = []\n"),
                  ("dep_logic/markers/multi.py", "@dataclass(init=False, frozen=True, unsafe_hash=True, **DATACLASS_ARGS)\nclass MultiMarker(BaseMarker):",
                   "_of_memo: dict = {}\n\n\n@dataclass(init=False, frozen=True, unsafe_hash=True, **DATACLASS_ARGS)\nclass MultiMarker(BaseMarker):")],
    },
    # ---- behaviour-preserving changes: must stay silent --------------------------------
    {
        "name": "benign-bounded-lru",
        "expect": "silent",
        "why": "maxsize=64 on cnf/dnf/merge: evictions only cause recomputation",
        "edits": [("dep_logic/utils.py", "@functools.lru_cache(maxsize=None)\ndef _cnf", "@functools.lru_cache(maxsize=64)\ndef _cnf"),
                  ("dep_logic/utils.py", "@functools.lru_cache(maxsize=None)\ndef _dnf", "@functools.lru_cache(maxsize=64)\ndef _dnf"),
                  ("dep_logic/markers/single.py", "@functools.lru_cache(maxsize=None)\ndef _cached_merge_single_markers", "@functools.lru_cache(maxsize=16)\ndef _cached_merge_single_markers")],
    },
    {
        "name": "benign-no-parse-cache",
        "expect": "silent",
        "why": "parse_marker without memoisation",
        "edits": [("dep_logic/markers/__init__.py", "@functools.lru_cache(maxsize=None)\ndef parse_marker", "def parse_marker")],
    },
    {
        "name": "benign-no-cnf-dnf-cache",
        "expect": "silent",
        "why": "cnf/dnf without memoisation",
        "edits": [("dep_logic/utils.py", "@functools.lru_cache(maxsize=None)\ndef _cnf", "def _cnf"),
                  ("dep_logic/utils.py", "@functools.lru_cache(maxsize=None)\ndef _dnf", "def _dnf")],
    },
    {
        "name": "benign-functools-cache-and-rename",
        "expect": "silent",
        "why": "functools.cache instead of lru_cache(None), cached helper renamed",
        "edits": [("dep_logic/markers/single.py", "@functools.lru_cache(maxsize=None)\ndef _cached_merge_single_markers", "@functools.cache\ndef _merge_memo"),
                  ("dep_logic/markers/single.py", "merged = _cached_merge_single_markers(marker1, marker2, merge_class)", "merged = _merge_memo(marker1, marker2, merge_class)")],
    },
]


def apply(mutant, src_copy):
    """Apply in place; return None on success or a reason string when a pattern is missing."""
    import os

    for rel, old, new in mutant["edits"]:
        path = os.path.join(src_copy, rel)
        try:
            text = open(path).read()
        except OSError:
            return f"{rel} missing"
        if old not in text:
            return f"pattern not found in {rel}"
        open(path, "w").write(text.replace(old, new, 1))
    return None
