"""Minimisation of a diverging history and the replay-file format.

Runs in the pristine parent: every candidate is one warm fork plus one cold fork.
"""

from __future__ import annotations

import copy
import json
import os

from sim import gen
from sim import exec as sx
from sim import shard as sh


def _dependents_closure(steps, removed):
    """Steps that (transitively) use a removed step as operand must go too."""
    removed = set(removed)
    changed = True
    while changed:
        changed = False
        for st in steps:
            if st["id"] in removed:
                continue
            for k in ("a", "b"):
                if k in st and st[k] in removed:
                    removed.add(st["id"])
                    changed = True
                    break
    return removed


def _without(steps, removed):
    removed = _dependents_closure(steps, removed)
    return [st for st in steps if st["id"] not in removed]


class Minimiser:
    def __init__(self, steps, envs, sid, klass, *, fuel, max_candidates=400):
        self.envs = envs
        self.sid = sid
        self.klass = klass
        self.fuel = fuel
        self.candidates = 0
        self.max_candidates = max_candidates
        self.best = [dict(s) for s in steps if s["id"] <= sid]
        self.full = [dict(s) for s in steps]
        self.flaky = False
        self.observe = "only"
        self.last_detail = None

    def still_fails(self, steps, whole=False):
        if self.candidates >= self.max_candidates:
            return False
        if not any(s["id"] == self.sid for s in steps):
            return False
        self.candidates += 1
        res = sh.evaluate_program(steps, self.envs, fuel=self.fuel, shims=False, only=None if whole else {self.sid})
        for d in res["divergences"]:
            if d["id"] == self.sid and d["class"] == self.klass:
                self.last_detail = d["detail"]
                return True
        return False

    def run(self):
        """Returns the minimised step list, or None when the divergence could not be seen again at all.

        A defect whose manifestation depends on object addresses (id()-keyed or weakly keyed memo) is
        not a function of the program alone: heap layout differs between the search run and a re-run.
        Such a divergence is retried a few times, first in the cheap form (truncated program, only the
        failing step observed), then exactly as the search ran it (whole program, every step observed);
        ``self.flaky`` records that a retry was needed and ``self.observe`` which form reproduced."""
        self.flaky = False
        self.observe = "only"
        full = self.full
        for attempt in range(3):
            if self.still_fails(self.best):
                break
            self.flaky = True
        else:
            for attempt in range(3):
                if self.still_fails(full, whole=True):
                    self.best = full
                    self.observe = "all"
                    return self.best  # not minimised: reductions would change the heap layout again
            return None
        self._drop_steps()
        self._drop_faults()
        self._shrink_asts()
        self._drop_steps()
        return self.best

    # -- steps ---------------------------------------------------------------
    def _drop_steps(self):
        by_id = {s["id"]: s for s in self.best}
        cone = set(sx.cone_of(by_id, self.sid))
        removable = [s["id"] for s in self.best if s["id"] not in cone]
        # ddmin-style: try halves, quarters, … then singles until a full pass removes nothing
        chunk = max(1, len(removable) // 2)
        while removable and self.candidates < self.max_candidates:
            progress = False
            i = 0
            while i < len(removable):
                part = removable[i:i + chunk]
                cand = _without(self.best, part)
                if self.still_fails(cand):
                    self.best = cand
                    kept = {s["id"] for s in cand}
                    removable = [r for r in removable if r in kept]
                    progress = True
                else:
                    i += chunk
            if chunk == 1 and not progress:
                break
            if chunk > 1:
                chunk = max(1, chunk // 2)

    def _drop_faults(self):
        for st in list(self.best):
            if "fault" in st:
                cand = [dict(s) for s in self.best]
                for s in cand:
                    if s["id"] == st["id"]:
                        s.pop("fault")
                if self.still_fails(cand):
                    self.best = cand

    # -- ASTs ------------------------------------------------------------------
    def _ast_variants(self, ast):
        """Smaller/simpler ASTs, most aggressive first."""
        out = []
        if gen.is_atom(ast):
            if ast[4]:
                a = list(ast)
                a[4] = False
                out.append(a)
            return out
        kids = ast[1:]
        for k in kids:
            out.append(copy.deepcopy(k))  # replace the node by one child
        if len(kids) > 2:
            for i in range(len(kids)):
                out.append([ast[0]] + [copy.deepcopy(k) for j, k in enumerate(kids) if j != i])
        for i, k in enumerate(kids):
            for v in self._ast_variants(k):
                out.append([ast[0]] + [v if j == i else copy.deepcopy(kk) for j, kk in enumerate(kids)])
        return out

    def _shrink_asts(self):
        progress = True
        while progress and self.candidates < self.max_candidates:
            progress = False
            for st in list(self.best):
                if st["op"] != "parse" or "ast" not in st:
                    continue
                variants = self._ast_variants(st["ast"])
                # plain rendering of the same AST is also a simplification
                plain = gen.render(st["ast"])
                if plain != st["text"]:
                    variants.insert(0, st["ast"])
                for v in variants:
                    cand = [dict(s) for s in self.best]
                    for s in cand:
                        if s["id"] == st["id"]:
                            s["ast"] = v
                            s["text"] = gen.render(v)
                    if self.still_fails(cand):
                        self.best = cand
                        progress = True
                        break


def renumber(steps, sid):
    ren = {}
    out = []
    for st in steps:
        ren[st["id"]] = len(ren)
        s = {k: v for k, v in st.items()}
        s["id"] = ren[st["id"]]
        for k in ("a", "b"):
            if k in s:
                s[k] = ren[s[k]]
        out.append(s)
    return out, ren[sid]


def write_replay(path, *, steps, envs, sid, klass, detail, meta):
    doc = {
        "property": "C10",
        "format": 1,
        **meta,
        "failing_step": sid,
        "class": klass,
        "detail": detail,
        "steps": steps,
        "envs": envs,
    }
    os.makedirs(os.path.dirname(path), exist_ok=True)
    tmp = path + ".tmp"
    with open(tmp, "w") as f:
        json.dump(doc, f, indent=1, sort_keys=True)
        f.write("\n")
    os.replace(tmp, path)
    return doc


def replay(doc, *, fuel=None, attempts=1):
    """Re-run a replay document. Returns (reproduced: bool, observed divergence or None, attempts used).

    "Reproduced" = the failing step diverges again with the same class and the same
    warm and cold observables (texts, flags, truth vectors) as recorded. ``attempts`` > 1 is only
    for documents marked flaky (address-dependent defects): the run is repeated until it reproduces.
    """
    steps = doc["steps"]
    envs = doc["envs"]
    sid = doc["failing_step"]
    only = None if doc.get("observe") == "all" else {sid}
    last = None
    for attempt in range(1, max(1, attempts) + 1):
        res = sh.evaluate_program(steps, envs, fuel=fuel or doc.get("fuel", sh.DEFAULT_FUEL), shims=False, only=only)
        if res["harness"]:
            raise sh.HarnessError(f"replay: {res['harness']}")
        for d in res["divergences"]:
            if d["id"] == sid:
                last = d
                if d["class"] == doc["class"] and d["detail"] == doc["detail"]:
                    return True, d, attempt
    return False, last, attempts
