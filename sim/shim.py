"""Pass-through shims around dep_logic's process-wide memo tables. Metrics only.

Caches are *discovered*: every object reachable as a module global of a ``dep_logic.*``
module that has ``cache_info`` and ``__wrapped__`` (i.e. a ``functools.lru_cache`` /
``functools.cache`` wrapper). A refactor that renames, adds or removes a cache is
picked up without touching this file. The shim never changes an argument or a result.
"""

from __future__ import annotations

import hashlib
import sys

from sim import exec as sx


def discover_caches():
    """{qualified name: wrapper}, one entry per distinct wrapper object, deterministic order."""
    found = {}
    seen = set()
    for modname in sorted(m for m in sys.modules if m == "dep_logic" or m.startswith("dep_logic.")):
        mod = sys.modules.get(modname)
        if mod is None:
            continue
        for attr in sorted(vars(mod)):
            val = vars(mod)[attr]
            if hasattr(val, "cache_info") and hasattr(val, "__wrapped__") and callable(val):
                if id(val) in seen:
                    continue
                seen.add(id(val))
                home = getattr(val.__wrapped__, "__module__", modname)
                found[f"{home}.{getattr(val.__wrapped__, '__name__', attr)}"] = val
    return found


def cache_sizes():
    return {name: w.cache_info().currsize for name, w in discover_caches().items()}


def _txt(a):
    if isinstance(a, str):
        return a
    if isinstance(a, type):
        return a.__name__
    try:
        return str(a)
    except Exception:  # noqa: BLE001
        return "<unprintable>"


class Shim:
    def __init__(self):
        self.installed = False
        self.caches = {}
        self.shadow = {}  # cache name -> {args: (texts, step, attempt)}
        self.cones = {}
        self.cur = None  # (sid, attempt)
        self.cur_cone = frozenset()
        self.per_op = {}  # sid -> metrics of the last attempt
        self.totals = {}
        self._sig = None
        self._op = None
        self.rare = {}

    # -- installation ------------------------------------------------------
    def install(self):
        self.caches = discover_caches()
        for name, wrapper in self.caches.items():
            proxy = self._make_proxy(name, wrapper)
            for modname in [m for m in sys.modules if m == "dep_logic" or m.startswith("dep_logic.")]:
                mod = sys.modules.get(modname)
                if mod is None:
                    continue
                for attr, val in list(vars(mod).items()):
                    if val is wrapper:
                        setattr(mod, attr, proxy)
            self.shadow[name] = {}
            self.totals[name] = {"hit": 0, "miss": 0, "alias": 0, "foreign": 0, "alias_side": 0,
                                 "alias_spelling": 0, "alias_other": 0, "unhashable": 0}
        self.installed = True

    def _bump(self, what, n=1):
        self.rare[what] = self.rare.get(what, 0) + n

    def _make_proxy(self, name, wrapper):
        shim = self
        short = name.rsplit(".", 1)[-1]

        def proxy(*args, **kwargs):
            # the shim's own bookkeeping (str() of operands…) must not advance the logical
            # clock nor take an injected fault: disarm while in shim code, re-arm around the call
            clock = sx.CLOCK
            was_armed = clock.armed
            clock.armed = False
            try:
                return inner(clock, was_armed, args, kwargs)
            finally:
                clock.armed = was_armed

        def call(clock, was_armed, args, kwargs):
            clock.armed = was_armed
            try:
                return wrapper(*args, **kwargs)
            finally:
                clock.armed = False

        def inner(clock, was_armed, args, kwargs):
            shadow = shim.shadow[name]
            tot = shim.totals[name]
            if kwargs:
                return call(clock, was_armed, args, kwargs)
            try:
                ent = shadow.get(args)
            except TypeError:
                tot["unhashable"] += 1
                return call(clock, was_armed, args, kwargs)
            if ent is None:
                tot["miss"] += 1
                shim._event(short, "M")
                res = call(clock, was_armed, args, kwargs)  # an exception leaves no entry, exactly like lru_cache
                shadow[args] = (tuple(_txt(a) for a in args), shim.cur)
                shim._classify_result(short, args, res, None)
                return res
            texts, creator = ent
            tot["hit"] += 1
            mine = tuple(_txt(a) for a in args)
            kind = "H"
            if mine != texts:
                kind = "A"
                tot["alias"] += 1
                tot[shim._alias_kind(mine, texts)] += 1
            if creator is not None and creator[0] not in shim.cur_cone:
                tot["foreign"] += 1
                kind += "f"
                if shim._op is not None:
                    shim._op["foreign"] += 1
            if shim.cur is not None and creator is not None and creator[0] == shim.cur[0] and creator[1] != shim.cur[1]:
                shim._bump("retry_hit_on_leftover_of_aborted_attempt")
            if shim._op is not None and kind[0] == "A":
                shim._op["alias"] += 1
            shim._event(short, kind)
            res = call(clock, was_armed, args, kwargs)
            shim._classify_result(short, args, res, texts if kind[0] == "A" else None)
            return res

        for attr in ("cache_info", "cache_clear", "cache_parameters", "__wrapped__", "__name__", "__doc__",
                     "__module__", "__qualname__"):
            if hasattr(wrapper, attr):
                try:
                    setattr(proxy, attr, getattr(wrapper, attr))
                except (AttributeError, TypeError):
                    pass
        proxy.__verif_shim__ = True
        return proxy

    @staticmethod
    def _alias_kind(mine, theirs):
        def squash(s):
            return "".join(ch for ch in s if ch not in " ()")

        def sideless(s):
            # crude: sort the tokens, so "a >= b" and "b <= a" collide
            flip = {"<=": ">=", ">=": "<=", "<": ">", ">": "<"}
            toks = [flip.get(t, t) for t in s.replace("(", " ").replace(")", " ").split()]
            return sorted(t for t in toks if t not in ("<=", ">=", "<", ">"))

        if [sideless(a) for a in mine] == [sideless(b) for b in theirs]:
            return "alias_side"
        if [squash(a).replace(".0", "") for a in mine] == [squash(b).replace(".0", "") for b in theirs]:
            return "alias_spelling"
        return "alias_other"

    def _classify_result(self, short, args, res, creator_texts):
        # "rare condition" probes; attribute reads only
        try:
            if len(args) >= 2 and all(hasattr(a, "name") for a in args[:2]):
                names = {args[0].name, args[1].name}
                if names == {"python_version", "python_full_version"}:
                    self._bump("pv_x_pfv_merge")
                if any(getattr(a, "_specifier", None) is not None for a in args[:2]):
                    self._bump("merge_operand_with_specifier_already_computed")
                if res is not None and creator_texts is not None and any(res is a for a in args[:2]):
                    pass
                if res is not None and creator_texts is not None and not any(res is a for a in args[:2]):
                    if any(res == a for a in args[:2]):
                        self._bump("alias_hit_returned_other_callers_equal_operand")
            tn = type(res).__name__
            if tn in ("EqualityMarkerUnion", "InequalityMultiMarker"):
                self._bump("group_created_or_returned")
        except Exception:  # noqa: BLE001 - metrics must never disturb the run
            self._bump("metric_error")

    # -- per operation -----------------------------------------------------
    def begin_op(self, sid, attempt):
        self.cur = (sid, attempt)
        self.cur_cone = self.cones.get(sid, frozenset())
        self._sig = hashlib.sha1()
        self._op = {"events": 0, "alias": 0, "foreign": 0}

    def _event(self, short, kind):
        if self._sig is not None:
            self._sig.update(f"{short}:{kind};".encode())
            self._op["events"] += 1

    def end_op(self, sid, attempt, status):
        if self._sig is not None:
            self._op["sig"] = self._sig.hexdigest()[:16]
            self._op["status"] = status
            self.per_op[sid] = self._op
        self._sig = None
        self._op = None
        self.cur = None
        self.cur_cone = frozenset()

    # -- summary -----------------------------------------------------------
    def population_digest(self):
        h = hashlib.sha1()
        for name in sorted(self.shadow):
            keys = sorted("|".join(t) for t, _ in self.shadow[name].values())
            h.update(name.encode())
            for k in keys:
                h.update(k.encode())
                h.update(b"\n")
        return h.hexdigest()[:16]

    def summary(self):
        return {
            "totals": self.totals,
            "per_op": {str(k): v for k, v in self.per_op.items()},
            "rare": self.rare,
            "population": self.population_digest(),
            "sizes": {n: w.cache_info().currsize for n, w in self.caches.items()},
        }
