#!/venv/bin/python
"""Run a fixed-budget seeded search against every kept mutant under /verif/seeded (scratch worktrees
of /repo under /tmp, removed afterwards) and print how many runs diverged. Development tool; not a check."""
import argparse, importlib.machinery, importlib.util, json, os, subprocess, sys, tempfile, shutil, time

ROOT = os.path.dirname(os.path.dirname(os.path.abspath(__file__)))
loader = importlib.machinery.SourceFileLoader("check_mod", os.path.join(ROOT, "check"))
spec = importlib.util.spec_from_loader("check_mod", loader)
check = importlib.util.module_from_spec(spec)
loader.exec_module(check)

ap = argparse.ArgumentParser()
ap.add_argument("--shards", type=int, default=16)
ap.add_argument("--runs", type=int, default=360)
ap.add_argument("--seed", type=int, default=0)
ap.add_argument("--sweeps", type=int, default=0, help="crash-point sweeps per shard instead of random runs")
ap.add_argument("only", nargs="*")
a = ap.parse_args()
rows = []
for mid in sorted(os.listdir(os.path.join(ROOT, "seeded"))):
    if a.only and not any(o in mid for o in a.only):
        continue
    patch = os.path.join(ROOT, "seeded", mid, "patch.diff")
    if not os.path.exists(patch):
        continue
    wt = tempfile.mkdtemp(prefix="sb-")
    os.rmdir(wt)
    try:
        subprocess.run(["git", "-C", "/repo", "worktree", "add", "-q", "--detach", wt, "HEAD"], check=True)
        r = subprocess.run(["git", "-C", wt, "apply", patch], capture_output=True, text=True)
        if r.returncode:
            rows.append((mid, "patch does not apply", r.stderr.strip()[:100]))
            continue
        t = time.time()
        if a.sweeps:
            res = check.mini_sweeps(os.path.join(wt, "src"), a.seed, a.shards, a.sweeps)
            rows.append((mid, f"sweeps={res['sweeps']} positions={res['positions']}", res["diverging_positions"], res["diverge"],
                         f"{time.time()-t:.0f}s", res["fatal"][:1]))
        else:
            res = check.mini_search(os.path.join(wt, "src"), a.seed, a.shards, a.runs)
            rows.append((mid, res["runs"], res["diverging_runs"], res["diverge"], f"{time.time()-t:.0f}s", res["fatal"][:1]))
            feats = {}
            for c in res.get("cfgs", []):
                for k, v in c.items():
                    feats.setdefault(k, {}).setdefault(str(v), 0)
                    feats[k][str(v)] += 1
            if feats:
                print("    features of diverging runs:", json.dumps(feats), flush=True)
        print(rows[-1], flush=True)
    finally:
        subprocess.run(["git", "-C", "/repo", "worktree", "remove", "--force", wt])
print(json.dumps(rows))
if not a.only:
    # full board: keep it next to the mutants (development record; the checks never read it)
    out = os.path.join(ROOT, "seeded", "SCOREBOARD-sweeps.json" if a.sweeps else "SCOREBOARD.json")
    head = subprocess.run(["git", "-C", ROOT, "rev-parse", "--short", "HEAD"], capture_output=True, text=True).stdout.strip()
    json.dump({"verif_commit": head, "seed": a.seed, "shards": a.shards, "runs_per_shard": a.runs, "sweeps_per_shard": a.sweeps,
               "rows": [list(r) for r in rows]}, open(out, "w"), indent=1)
