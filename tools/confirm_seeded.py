#!/venv/bin/python
"""For each kept mutant under /verif/seeded/<id>/: apply patch.diff to /repo (git apply), run the registered
quick check against /repo itself, undo the patch (git checkout -- .), and record the outcome in meta.json.
The evidence file and the replays/ directory of /verif are NOT touched (--no-evidence, scratch replay dir)."""
import json, os, re, subprocess, sys, tempfile, shutil, time

ROOT = os.path.dirname(os.path.dirname(os.path.abspath(__file__)))
only = sys.argv[1:]
assert subprocess.run(["git", "-C", "/repo", "status", "--porcelain"], capture_output=True, text=True).stdout.strip() == "", "/repo not clean"
head = subprocess.run(["git", "-C", "/repo", "rev-parse", "--short", "HEAD"], capture_output=True, text=True).stdout.strip()
for mid in sorted(os.listdir(os.path.join(ROOT, "seeded"))):
    if only and not any(o in mid for o in only):
        continue
    d = os.path.join(ROOT, "seeded", mid)
    patch = os.path.join(d, "patch.diff")
    if not os.path.isfile(patch):
        continue
    meta_path = os.path.join(d, "meta.json")
    meta = json.load(open(meta_path)) if os.path.exists(meta_path) else {}
    rdir = tempfile.mkdtemp(prefix="confirm-")
    try:
        subprocess.run(["git", "-C", "/repo", "apply", patch], check=True)
        t = time.time()
        p = subprocess.run([os.path.join(ROOT, "check"), "C10", "--tier", "quick", "--no-evidence", "--replay-dir", rdir],
                           capture_output=True, text=True, cwd=ROOT)
        wall = time.time() - t
    finally:
        subprocess.run(["git", "-C", "/repo", "checkout", "--", "."], check=True)
    out = p.stdout
    vio = [ln for ln in out.splitlines() if ln.startswith("VIOLATION ")]
    summary = next((ln for ln in out.splitlines() if ln.startswith("runs=")), "")
    m = re.search(r"diverge=(\{[^}]*\})", summary)
    first = None
    if vio:
        path = vio[0].split("replay=")[1]
        try:
            doc = json.load(open(path))
            first = {"class": doc["class"], "steps": [{k: v for k, v in s.items() if k in ("op", "text", "a", "b", "fault")} for s in doc["steps"]],
                     "failing_step": doc["failing_step"], "detail": doc["detail"], "flaky": doc.get("flaky", False)}
        except Exception as e:
            first = {"error": str(e)}
    meta.setdefault("property", "C10")
    meta["confirmed_against"] = {
        "repo_head": head, "cmd": "git -C /repo apply seeded/%s/patch.diff && ./check C10 --tier quick --no-evidence && git -C /repo checkout -- ." % mid,
        "exit_code": p.returncode, "violation_lines": len(vio), "divergences": m.group(1) if m else None,
        "wall_s": round(wall, 1), "first_minimised_replay": first,
    }
    meta["caught_by_quick"] = p.returncode == 1 and bool(vio)
    json.dump(meta, open(meta_path, "w"), indent=1)
    shutil.rmtree(rdir, ignore_errors=True)
    print(mid, "rc", p.returncode, "violations", len(vio), m.group(1) if m else "", f"{wall:.0f}s", flush=True)
assert subprocess.run(["git", "-C", "/repo", "status", "--porcelain"], capture_output=True, text=True).stdout.strip() == "", "/repo not clean after"
