#!/bin/bash
# Continuous seeded search with successive VERIF_SEED values (for `vp run`); stops at the first violation.
# usage: tools/soak.sh FIRST_SEED [RUNS_PER_SHARD] [OUTDIR]
seed=${1:-1000}; runs=${2:-2500}; out=${3:-/root/.vp/out/soak}
mkdir -p "$out"
cd "$(dirname "$0")/.."
while true; do
  ./check C10 --tier quick --seed "$seed" --runs "$runs" --no-selftest --no-evidence --replay-dir "$out/replays" > "$out/seed-$seed.log" 2>&1
  rc=$?
  echo "$(date -u +%H:%M:%S) seed=$seed rc=$rc $(grep '^runs=' "$out/seed-$seed.log" | cut -c1-160)" | tee -a "$out/summary.log"
  if [ $rc -ne 0 ]; then echo "STOP: rc=$rc at seed $seed (see $out/seed-$seed.log)" | tee -a "$out/summary.log"; exit $rc; fi
  seed=$((seed+1))
done
