#!/venv/bin/python
"""Print the markdown table of DESIGN.md section 9 from seeded/*/meta.json and seeded/SCOREBOARD*.json."""
import json, os
ROOT = os.path.dirname(os.path.dirname(os.path.abspath(__file__)))
sb = {}
for name, key in (("SCOREBOARD.json", "random"), ("SCOREBOARD-sweeps.json", "sweeps")):
    p = os.path.join(ROOT, "seeded", name)
    if os.path.exists(p):
        doc = json.load(open(p))
        for row in doc["rows"]:
            sb.setdefault(row[0], {})[key] = (row[1], row[2])
        sb.setdefault("_meta", {})[key] = {k: doc[k] for k in ("verif_commit", "shards", "runs_per_shard", "sweeps_per_shard")}
print("| id | change | needs in order to manifest | diverging runs (random search) | diverging fault positions (sweeps) | quick check on /repo+patch |")
print("|---|---|---|---|---|---|")
for mid in sorted(os.listdir(os.path.join(ROOT, "seeded"))):
    mp = os.path.join(ROOT, "seeded", mid, "meta.json")
    if not os.path.exists(mp):
        continue
    m = json.load(open(mp))
    r = sb.get(mid, {})
    rnd = f"{r['random'][1]} / {r['random'][0]}" if "random" in r else "-"
    sw = f"{r['sweeps'][1]}" if "sweeps" in r else "-"
    c = m.get("confirmed_against", {})
    conf = f"exit {c.get('exit_code')}, {c.get('violation_lines')} VIOLATION lines" if c else "-"
    esc = lambda t: str(t).replace("|", "\\|")
    print(f"| {mid.split('-')[0]} | {esc(m.get('change', ''))} | {esc(m.get('needs_to_manifest', ''))} | {rnd} | {sw} | {conf} |")
print()
print(json.dumps(sb.get("_meta", {})))
