#!/venv/bin/python
"""Replace the region between the SEEDED-TABLE markers of DESIGN.md with the freshly rendered table."""
import os, subprocess
ROOT = os.path.dirname(os.path.dirname(os.path.abspath(__file__)))
table = subprocess.run([os.path.join(ROOT, "tools", "render_seeded_table.py")], capture_output=True, text=True, check=True).stdout
lines = table.strip().splitlines()
meta = lines[-1]
body = "\n".join(lines[:-1]).strip()
p = os.path.join(ROOT, "DESIGN.md")
s = open(p).read()
a = s.index("<!-- SEEDED-TABLE-BEGIN -->") + len("<!-- SEEDED-TABLE-BEGIN -->")
b = s.index("<!-- SEEDED-TABLE-END -->")
s = s[:a] + "\n" + body + "\n\nScore board provenance: `" + meta + "`\n" + s[b:]
open(p, "w").write(s)
print("updated")
